#!/bin/bash
# [CHECKS="C11 C12"] sweep.sh <tier> <seeds...> : run every check on the unchanged tree for several seeds; print only non-zero exits
tier=$1; shift
for seed in "$@"; do
  for p in ${CHECKS:-C01 C02 C03 C04 C05 C06 C07 C08 C09 C10 C11 C12 C13 C14 C15 C16 C17 C18 C19 C20}; do
    out=$(VERIF_SEED=$seed VERIF_EVIDENCE_DIR=/var/tmp/sweep-evid ./check $p --tier $tier 2>&1); rc=$?
    w=$(echo "$out" | grep -o "wall=[0-9.]*s" | head -1)
    if [ $rc -ne 0 ]; then echo "FAIL seed=$seed $p rc=$rc $w"; echo "$out" | grep -E "VIOL|INCONC|mechanism" | head -5; else echo "ok seed=$seed $p $w"; fi
  done
done
