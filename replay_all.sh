#!/bin/bash
# replay_all.sh : re-run every committed witness under replays/ (witnesses of the defects repaired by the fix: commits and of the
# self-test mutants) against the current tree; each must replay clean.  Prints only the ones that do not.
cd "$(dirname "$0")"
n=0; bad=0
for f in $(git ls-files replays); do
  p=$(echo "$f" | cut -d/ -f2)
  out=$(timeout 300 ./check "$p" --replay "$f" 2>&1); rc=$?
  n=$((n+1))
  if [ $rc -ne 0 ] || echo "$out" | grep -q "^VIOLATION"; then bad=$((bad+1)); echo "NOT CLEAN rc=$rc $f"; fi
done
echo "replayed $n witnesses, $bad not clean"
[ $bad -eq 0 ]
