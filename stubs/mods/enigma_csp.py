"""Fake extension module 'enigma_csp' (stand-in for the absent native solver): solver(text) -> reply."""
import json
import os

ENTRY = "enigma_csp"
CALLS = []  # in-process log: [entry, text, reply]
HOOK = None  # optional callable(entry, text) -> reply


def solver(csp_description):
    rec = [ENTRY, csp_description, None]
    CALLS.append(rec)
    if os.environ.get("VERIF_STANDIN_TRIVIAL"):
        # C20 only needs to know that the text arrived here: answer 'unsatisfiable' in the right protocol mode
        reply = "unsat\n" if "\n#" in csp_description else "s UNSATISFIABLE\n"
    elif HOOK is not None:
        reply = HOOK(ENTRY, csp_description)
    else:
        from vf.refs import ref_sugar

        reply = ref_sugar.answer(csp_description)
    rec[2] = reply
    log = os.environ.get("VERIF_WIRE_LOG")
    if log:
        with open(log, "a") as f:
            f.write(json.dumps({"entry": ENTRY, "text": csp_description, "reply": reply}) + "\n")
    return reply
