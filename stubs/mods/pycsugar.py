"""Fake extension module 'pycsugar' (stand-in for the absent native solver): solver(text) -> reply."""
import json
import os

ENTRY = "pycsugar"
CALLS = []  # in-process log: (entry, text, reply)
HOOK = None  # optional callable(entry, text) -> reply


def solver(csp_description):
    from vf.refs import ref_sugar

    if HOOK is not None:
        reply = HOOK(ENTRY, csp_description)
    else:
        reply = ref_sugar.answer(csp_description)
    CALLS.append((ENTRY, csp_description, reply))
    log = os.environ.get("VERIF_WIRE_LOG")
    if log:
        with open(log, "a") as f:
            f.write(json.dumps({"entry": ENTRY, "text": csp_description, "reply": reply}) + "\n")
    return reply
