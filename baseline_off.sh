#!/bin/bash
# Repository's pinned suite with the verification guard OFF; compares the pass set with BASELINE.json.
unset CSPUZ_VERIF VERIF_REPO PYTHONPATH
OUT=$(mktemp /var/tmp/cspuz-baseline-XXXXXX.xml)
cd /repo && /venv/bin/python -m pytest -ra -q -p no:cacheprovider --timeout=900 --continue-on-collection-errors --junitxml="$OUT" >/dev/null 2>&1
/venv/bin/python - "$OUT" <<'PY'
import json, sys, xml.etree.ElementTree as ET
base = set(json.load(open('/root/.vp/BASELINE.json'))['stable_pass'])
passed = set()
for tc in ET.parse(sys.argv[1]).getroot().iter('testcase'):
    if not any(ch.tag in ('failure', 'error', 'skipped') for ch in tc):
        passed.add(tc.get('classname') + '::' + tc.get('name'))
missing = sorted(base - passed)
print(f"baseline: {len(base)} expected, {len(passed & base)} pass, {len(missing)} missing")
for m in missing[:20]:
    print("  MISSING", m)
sys.exit(1 if missing else 0)
PY
rc=$?
rm -f "$OUT"
exit $rc
