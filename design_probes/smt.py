import subprocess, time, itertools
from cspuz import Solver, graph
from cspuz.expr import Op, BoolVar, IntVar, Expr
def pr(e):
    if isinstance(e,bool): return 'true' if e else 'false'
    if isinstance(e,int): return str(e) if e>=0 else f'(- {-e})'
    if isinstance(e,BoolVar): return f'b{e.id}'
    if isinstance(e,IntVar): return f'i{e.id}'
    o=[pr(x) for x in e.operands]
    op=e.op
    if op in (Op.BOOL_CONSTANT,Op.INT_CONSTANT): return o[0]
    if op==Op.NEG: return f'(- {o[0]})'
    if op==Op.ADD: return o[0] if len(o)==1 else '(+ '+' '.join(o)+')'
    if op==Op.SUB: return '(- '+' '.join(o)+')'
    m={Op.EQ:'=',Op.LE:'<=',Op.LT:'<',Op.GE:'>=',Op.GT:'>',Op.IFF:'=',Op.XOR:'xor',Op.IMP:'=>',Op.IF:'ite',Op.NOT:'not'}
    if op in m: return f'({m[op]} '+' '.join(o)+')'
    if op==Op.NE: return f'(not (= {o[0]} {o[1]}))'
    if op==Op.AND: return 'true' if not o else '(and '+' '.join(o)+')' if len(o)>1 else o[0]
    if op==Op.OR: return 'false' if not o else '(or '+' '.join(o)+')' if len(o)>1 else o[0]
    if op==Op.ALLDIFF: return 'true' if len(o)<2 else '(distinct '+' '.join(o)+')'
def smt(s):
    L=['(set-logic QF_LIA)']
    for v in s.variables:
        if isinstance(v,BoolVar): L.append(f'(declare-const b{v.id} Bool)')
        else: L.append(f'(declare-const i{v.id} Int)'); L.append(f'(assert (and (<= {pr(v.lo)} i{v.id}) (<= i{v.id} {pr(v.hi)})))')
    for c in s.constraints: L.append(f'(assert {pr(c)})')
    L.append('(check-sat)')
    return '\n'.join(L)
import random
random.seed(1)
tz=tc=tz3=0; n=0; dis=0
for h,w in [(3,3),(3,4),(4,4)]:
  for _ in range(15):
    s=Solver(); a=s.bool_array((h,w)); graph.active_vertices_connected(s,a)
    for y in range(h):
        for x in range(w):
            s.ensure(a[y,x] if random.random()<0.6 else ~a[y,x])
    t=time.time(); r=s.find_answer('z3'); tz+=time.time()-t
    txt=smt(s)
    t=time.time(); o=subprocess.run(['cvc5','--lang','smt2'],input=txt.encode(),capture_output=True,timeout=60).stdout.decode().strip(); tc+=time.time()-t
    t=time.time(); o2=subprocess.run(['/usr/bin/z3','-in'],input=txt.encode(),capture_output=True,timeout=60).stdout.decode().strip(); tz3+=time.time()-t
    n+=1
    if (o=='sat')!=r or (o2=='sat')!=r: dis+=1; print('DISAGREE',r,o,o2)
print(n,'cases; z3py',tz,'cvc5',tc,'z3cli',tz3,'disagree',dis)
