import itertools, random, sys, time
import cspuz.backend.z3 as zb
from cspuz.expr import Op
orig = zb._convert_expr
def patched(e, vd):
    if hasattr(e,'op') and e.op in (Op.BOOL_CONSTANT, Op.INT_CONSTANT):
        return e.operands[0]
    return orig(e, vd)
zb._convert_expr = patched
import warnings; warnings.simplefilter('ignore')

def conn(cells):
    cells=set(cells)
    if not cells: return True
    st=[next(iter(cells))]; seen={st[0]}
    while st:
        y,x=st.pop()
        for d in ((1,0),(-1,0),(0,1),(0,-1)):
            p=(y+d[0],x+d[1])
            if p in cells and p not in seen: seen.add(p); st.append(p)
    return len(seen)==len(cells)

def facts(sols):
    # sols: list of dict cell->value
    if not sols: return None
    keys=sols[0].keys()
    out={}
    for k in keys:
        vs={s[k] for s in sols}
        out[k]=next(iter(vs)) if len(vs)==1 else None
    return out

def compare(name, inst, is_sat, got, sols):
    truth=facts(sols)
    if (truth is not None)!=bool(is_sat):
        print('MISMATCH sat',name,inst,'solver',is_sat,'truth',len(sols)); return 1
    if truth is None: return 0
    bad=[(k,got[k],truth[k]) for k in truth if got[k]!=truth[k]]
    if bad:
        print('MISMATCH facts',name,inst,bad[:5],'nsol',len(sols)); return 1
    return 0

# ---------- cycles on lattice
def all_cycles(H,W):
    # vertices (y,x) 0<=y<H,0<=x<W ; returns list of frozenset of edges ((y,x),(y2,x2)) sorted
    res=set()
    V=[(y,x) for y in range(H) for x in range(W)]
    def nb(p):
        y,x=p
        for d in ((1,0),(-1,0),(0,1),(0,-1)):
            q=(y+d[0],x+d[1])
            if 0<=q[0]<H and 0<=q[1]<W: yield q
    for s in V:
        # cycles whose min vertex is s
        path=[s]; onp={s}
        def dfs(p):
            for q in nb(p):
                if q==s and len(path)>=4:
                    es=frozenset(tuple(sorted((path[i],path[(i+1)%len(path)]))) for i in range(len(path)))
                    res.add(es)
                elif q not in onp and q>s:
                    path.append(q); onp.add(q); dfs(q); path.pop(); onp.discard(q)
        dfs(s)
    return [frozenset()]+sorted(res, key=lambda e:(len(e),sorted(e)))

bad=0; n=0
rnd=random.Random(1)
# ---- slitherlink
from cspuz.puzzle import slitherlink
for (h,w) in [(1,1),(1,2),(2,1),(2,2),(2,3),(3,2)]:
    cyc=all_cycles(h+1,w+1)
    for _ in range(12):
        prob=[[rnd.choice([-1,-1,0,1,2,3]) for x in range(w)] for y in range(h)]
        sols=[]
        for c in cyc:
            ok=True
            for y in range(h):
                for x in range(w):
                    if prob[y][x]>=0:
                        sides=[((y,x),(y,x+1)),((y+1,x),(y+1,x+1)),((y,x),(y+1,x)),((y,x+1),(y+1,x+1))]
                        if sum(1 for e in sides if e in c)!=prob[y][x]: ok=False
            if ok:
                d={}
                for y in range(h+1):
                    for x in range(w):
                        d[('h',y,x)]=((y,x),(y,x+1)) in c
                for y in range(h):
                    for x in range(w+1):
                        d[('v',y,x)]=((y,x),(y+1,x)) in c
                sols.append(d)
        is_sat,gf=slitherlink.solve_slitherlink(h,w,prob)
        got={}
        for y in range(h+1):
            for x in range(w): got[('h',y,x)]=gf.horizontal[y,x].sol
        for y in range(h):
            for x in range(w+1): got[('v',y,x)]=gf.vertical[y,x].sol
        bad+=compare('slither',(h,w,prob),is_sat,got,sols); n+=1
print('slither done',n,bad)
# ---- yajilin
from cspuz.puzzle import yajilin
for (h,w) in [(1,1),(1,3),(2,2),(2,3),(3,3),(3,4)]:
    cyc=all_cycles(h,w)
    for _ in range(10):
        prob=[['..' for x in range(w)] for y in range(h)]
        for k in range(rnd.choice([0,1,1,2])):
            y=rnd.randrange(h); x=rnd.randrange(w)
            prob[y][x]=rnd.choice(['^','v','<','>'])+str(rnd.choice([0,0,1,2])) if rnd.random()<0.85 else '??'
        sols=[]
        for c in cyc:
            passed={p for e in c for p in e}
            black=set(); ok=True
            for y in range(h):
                for x in range(w):
                    if prob[y][x]!='..':
                        if (y,x) in passed: ok=False
                    elif (y,x) not in passed: black.add((y,x))
            if not ok: continue
            for (y,x) in black:
                if (y+1,x) in black or (y,x+1) in black: ok=False
            for y in range(h):
                for x in range(w):
                    c_=prob[y][x]
                    if c_ not in ('..','??'):
                        k=int(c_[1:]); d=c_[0]
                        if d=='^': cnt=sum(1 for y2 in range(0,y) if (y2,x) in black)
                        elif d=='v': cnt=sum(1 for y2 in range(y+1,h) if (y2,x) in black)
                        elif d=='<': cnt=sum(1 for x2 in range(0,x) if (y,x2) in black)
                        else: cnt=sum(1 for x2 in range(x+1,w) if (y,x2) in black)
                        if cnt!=k: ok=False
            if ok:
                dd={}
                for y in range(h):
                    for x in range(w):
                        dd[('b',y,x)]=(y,x) in black
                        if x<w-1: dd[('h',y,x)]=((y,x),(y,x+1)) in c
                        if y<h-1: dd[('v',y,x)]=((y,x),(y+1,x)) in c
                sols.append(dd)
        is_sat,gf,bc=yajilin.solve_yajilin(h,w,prob)
        got={}
        for y in range(h):
            for x in range(w):
                got[('b',y,x)]=bc[y,x].sol
                if x<w-1: got[('h',y,x)]=gf.horizontal[y,x].sol
                if y<h-1: got[('v',y,x)]=gf.vertical[y,x].sol
        bad+=compare('yajilin',(h,w,prob),is_sat,got,sols); n+=1
print('yajilin done',n,bad)
# ---- nurikabe
from cspuz.puzzle import nurikabe
def comps(cells):
    cells=set(cells); out=[]
    while cells:
        s=cells.pop(); st=[s]; c={s}
        while st:
            y,x=st.pop()
            for d in ((1,0),(-1,0),(0,1),(0,-1)):
                p=(y+d[0],x+d[1])
                if p in cells: cells.discard(p); c.add(p); st.append(p)
        out.append(c)
    return out
for (h,w) in [(1,1),(1,2),(1,3),(2,2),(2,3),(3,3),(3,4)]:
    for _ in range(10):
        prob=[[0]*w for _ in range(h)]
        for k in range(rnd.choice([0,1,2,2,3])):
            prob[rnd.randrange(h)][rnd.randrange(w)]=rnd.choice([1,2,3,-1])
        sols=[]
        for bits in itertools.product([0,1],repeat=h*w):
            white={(i//w,i%w) for i,b in enumerate(bits) if b}
            black={(i//w,i%w) for i,b in enumerate(bits) if not b}
            ok=conn(black)
            for y in range(h-1):
                for x in range(w-1):
                    if all(p in black for p in ((y,x),(y+1,x),(y,x+1),(y+1,x+1))): ok=False
            if not ok: continue
            for c in comps(white):
                cl=[prob[y][x] for (y,x) in c if prob[y][x]!=0]
                if len(cl)!=1 or (cl[0]>0 and cl[0]!=len(c)): ok=False
            for y in range(h):
                for x in range(w):
                    if prob[y][x]!=0 and (y,x) in black: ok=False
            if ok: sols.append({(y,x):((y,x) in white) for y in range(h) for x in range(w)})
        is_sat,iw=nurikabe.solve_nurikabe(h,w,prob)
        got={(y,x):iw[y,x].sol for y in range(h) for x in range(w)}
        bad+=compare('nurikabe',(h,w,prob),is_sat,got,sols); n+=1
print('nurikabe done',n,bad)
