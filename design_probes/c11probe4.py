import itertools, random, sys, time
src=open('c11probe.py').read()
exec(src.split('# ---------- cycles on lattice')[0])
p2=open('c11probe2.py').read()
exec(p2.split("rnd=random.Random(2); bad=0; n=0")[1].split("shapes=[(1,1)")[0])
rnd=random.Random(4); bad=0; n=0
shapes=[(1,1),(1,3),(2,2),(2,3),(3,2),(3,3),(2,4),(3,4)]
# nurimisaki
from cspuz.puzzle import nurimisaki
def nm_gen(h,w):
    p=[[-1]*w for _ in range(h)]
    for k in range(rnd.choice([0,1,1,2])):
        p[rnd.randrange(h)][rnd.randrange(w)]=rnd.choice([0,0,2,3])
    return p
def nm_valid(lone_is_cape):
    def v(h,w,p,Wh):
        if not conn(Wh): return False
        for y in range(h-1):
            for x in range(w-1):
                k=sum(1 for c in ((y,x),(y+1,x),(y,x+1),(y+1,x+1)) if c in Wh)
                if k in (0,4): return False
        for y in range(h):
            for x in range(w):
                nb=[d for d in N4 if (y+d[0],x+d[1]) in Wh]
                if p[y][x]==-1:
                    if (y,x) in Wh and len(nb)==1: return False
                    if lone_is_cape and (y,x) in Wh and len(nb)==0: return False
                else:
                    if (y,x) not in Wh or len(nb)!=1: return False
                    if p[y][x]>0:
                        d=nb[0]; k=1; q=(y+d[0],x+d[1])
                        while q in Wh: k+=1; q=(q[0]+d[0],q[1]+d[1])
                        if k!=p[y][x]: return False
        return True
    return v
run('nurimisaki(lone ok)',shapes,nm_gen,nurimisaki.solve_nurimisaki,nm_valid(False))
# lits
from cspuz.puzzle import lits
def shape_of(cells):
    cells=sorted(cells)
    def norm(cs):
        my=min(y for y,x in cs); mx=min(x for y,x in cs)
        return tuple(sorted((y-my,x-mx) for y,x in cs))
    forms=set()
    cs=list(cells)
    for _ in range(4):
        cs=[(x,-y) for y,x in cs]; forms.add(norm(cs)); forms.add(norm([(y,-x) for y,x in cs]))
    return min(forms)
def lits_valid(h,w,rooms,B):
    if not conn(B): return False
    for y in range(h-1):
        for x in range(w-1):
            if all(c in B for c in ((y,x),(y+1,x),(y,x+1),(y+1,x+1))): return False
    rid={c:i for i,r in enumerate(rooms) for c in r}
    sh={}
    for i,r in enumerate(rooms):
        bs={c for c in r if c in B}
        if len(bs)!=4 or not conn(bs): return False
        sh[i]=shape_of(bs)
    for (y,x) in B:
        for d in ((1,0),(0,1)):
            q=(y+d[0],x+d[1])
            if q in B and rid[q]!=rid[(y,x)] and sh[rid[q]]==sh[rid[(y,x)]]: return False
    return True
run('lits',[(2,2),(2,4),(3,3),(3,4),(4,4)],lambda h,w: randrooms(h,w,rnd.choice([1,2,2,3])),lits.solve_lits,lits_valid,reps=6)
# aquarium (square or h<=w only because of known defect)
from cspuz.puzzle import aquarium
def aq_gen(h,w):
    rooms=randrooms(h,w,rnd.choice([1,2,3])); 
    return rooms,[rnd.choice([-1,-1,0,1,2]) for _ in range(h)],[rnd.choice([-1,-1,0,1,2]) for _ in range(w)]
def aq_valid(shared):
    def v(h,w,inst,S):
        rooms,cr,cc=inst
        for y in range(h):
            if cr[y]>=0 and sum(1 for x in range(w) if (y,x) in S)!=cr[y]: return False
        for x in range(w):
            if cc[x]>=0 and sum(1 for y in range(h) if (y,x) in S)!=cc[x]: return False
        for r in rooms:
            rs=set(r)
            if shared:
                # water level: exists level L such that cell wet iff y>=L
                wet=[c for c in r if c in S]
                if wet:
                    L=min(y for y,x in wet)
                    if any((c[0]>=L)!=(c in S) for c in r): return False
            else:
                for (y,x) in r:
                    if (y,x+1) in rs and ((y,x) in S)!=((y,x+1) in S): return False
                    if (y+1,x) in rs and (y,x) in S and (y+1,x) not in S: return False
        return True
    return v
def aq_run(name,shared):
    run(name,[(1,1),(1,3),(2,2),(2,3),(3,3),(2,4),(3,4)],aq_gen,lambda h,w,i: aquarium.solve_aquarium(h,w,*i),aq_valid(shared),reps=8)
aq_run('aquarium(local)',False)
rnd=random.Random(4); aq_run('aquarium(shared)',True)
# view
from cspuz.puzzle import view
def view_run():
    global bad,n
    b0=bad
    for (h,w) in [(1,1),(1,3),(2,2),(2,3),(3,3)]:
        for _ in range(8):
            p=[[rnd.choice([-1,-1,-1,0,1,2]) for x in range(w)] for y in range(h)]
            sols=[]
            for M in cellsets(h,w):
                if not conn(M): continue
                nums={}
                for (y,x) in allc(h,w):
                    if (y,x) in M:
                        k=0
                        for d in N4:
                            q=(y+d[0],x+d[1])
                            while 0<=q[0]<h and 0<=q[1]<w and q not in M: k+=1; q=(q[0]+d[0],q[1]+d[1])
                        nums[(y,x)]=k
                    else: nums[(y,x)]=0
                ok=True
                for (y,x) in M:
                    for d in ((1,0),(0,1)):
                        q=(y+d[0],x+d[1])
                        if q in M and nums[q]==nums[(y,x)]: ok=False
                for (y,x) in allc(h,w):
                    if p[y][x]>=0 and ((y,x) not in M or nums[(y,x)]!=p[y][x]): ok=False
                if ok:
                    d={}
                    for c in allc(h,w): d[('m',)+c]=(c in M); d[('n',)+c]=nums[c]
                    sols.append(d)
            is_sat,nn,hn=view.solve_view(h,w,p)
            got={}
            for c in allc(h,w): got[('m',)+c]=hn[c].sol; got[('n',)+c]=nn[c].sol
            bad+=compare('view',(h,w,p),is_sat,got,sols); n+=1
    print('view done; mismatches',bad-b0)
view_run()
# building
from cspuz.puzzle import building
def vis(seq):
    m=0;k=0
    for v in seq:
        if v>m: m=v;k+=1
    return k
def latin(nn):
    rows=list(itertools.permutations(range(1,nn+1)))
    def rec(g):
        if len(g)==nn: yield [list(r) for r in g]; return
        for r in rows:
            if all(r[i]!=q[i] for q in g for i in range(nn)):
                yield from rec(g+[r])
    yield from rec([])
b0=bad
for nn in (1,2,3,4):
    L=list(latin(nn))
    for _ in range(8):
        cl=[[rnd.choice([0,0,0,1,2,3]) if rnd.random()<0.5 else 0 for _ in range(nn)] for _ in range(4)]
        up,dw,lf,rg=cl
        sols=[]
        for g in L:
            ok=True
            for i in range(nn):
                col=[g[y][i] for y in range(nn)]; row=g[i]
                if up[i]>=1 and vis(col)!=up[i]: ok=False
                if dw[i]>=1 and vis(col[::-1])!=dw[i]: ok=False
                if lf[i]>=1 and vis(row)!=lf[i]: ok=False
                if rg[i]>=1 and vis(row[::-1])!=rg[i]: ok=False
            if ok: sols.append({(y,x):g[y][x] for y in range(nn) for x in range(nn)})
        is_sat,ans=building.solve_building(nn,up,dw,lf,rg)
        got={(y,x):ans[y,x].sol for y in range(nn) for x in range(nn)}
        bad+=compare('building',(nn,cl),is_sat,got,sols); n+=1
print('building done; mismatches',bad-b0)
# doppelblock
from cspuz.puzzle import doppelblock
b0=bad
for nn in (2,3,4):
    vals=[0,0]+list(range(1,nn-1))
    rows=sorted(set(itertools.permutations(vals)))
    def rec(g):
        if len(g)==nn: yield g; return
        for r in rows:
            ok=True
            for i in range(nn):
                col=[q[i] for q in g]+[r[i]]
                if col.count(0)>2: ok=False
                for v in range(1,nn-1):
                    if col.count(v)>1: ok=False
            if ok: yield from rec(g+[r])
    grids=[g for g in rec([]) if all([g[y][x] for y in range(nn)].count(0)==2 for x in range(nn))]
    def between(seq):
        i=[k for k,v in enumerate(seq) if v==0]
        return sum(seq[i[0]+1:i[1]])
    for _ in range(8):
        cr=[rnd.choice([-1,-1,0,1,2,3]) for _ in range(nn)]; cc=[rnd.choice([-1,-1,0,1,2,3]) for _ in range(nn)]
        sols=[]
        for g in grids:
            ok=all(cr[i]<0 or between(list(g[i]))==cr[i] for i in range(nn)) and all(cc[i]<0 or between([g[y][i] for y in range(nn)])==cc[i] for i in range(nn))
            if ok: sols.append({(y,x):g[y][x] for y in range(nn) for x in range(nn)})
        is_sat,ans=doppelblock.solve_doppelblock(nn,cr,cc)
        got={(y,x):ans[y,x].sol for y in range(nn) for x in range(nn)}
        bad+=compare('doppelblock',(nn,cr,cc),is_sat,got,sols); n+=1
print('doppelblock done; mismatches',bad-b0)
print('total',n,'bad',bad)
