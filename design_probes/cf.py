import sys
ev=[]
def hook(name, args):
    if name=='import' and args[0] in ('cspuz_core','enigma_csp','pycsugar','z3'):
        ev.append(args[0])
    if name=='subprocess.Popen':
        ev.append(('popen', args[0], args[1]))
sys.addaudithook(hook)
class Block:
    def find_spec(self, name, path=None, target=None):
        if name in ('z3',): raise ImportError('blocked '+name)
sys.meta_path.insert(0, Block())
import cspuz
print(cspuz.config.default_backend, cspuz.config.use_graph_primitive, cspuz.config.use_graph_division_primitive, ev)
s=cspuz.Solver(); x=s.bool_var(); s.ensure(x)
print(s.find_answer(), x.sol)
from cspuz import graph
a=s.bool_array((2,2)); graph.active_vertices_connected(s,a)
print([c.op for c in s.constraints][-1])
