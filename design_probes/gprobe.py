import itertools, random
import cspuz.backend.z3 as zb
from cspuz.expr import Op
orig = zb._convert_expr
def patched(e, vd):
    if hasattr(e,'op') and e.op in (Op.BOOL_CONSTANT, Op.INT_CONSTANT): return e.operands[0]
    return orig(e, vd)
zb._convert_expr = patched
import warnings; warnings.simplefilter('ignore')
from cspuz import Solver, graph
def comps(n, edges, act=None):
    par=list(range(n))
    def f(a):
        while par[a]!=a: par[a]=par[par[a]]; a=par[a]
        return a
    for (u,v) in edges:
        if act is None or (act[u] and act[v]): par[f(u)]=f(v)
    return f
def connected(n,edges,act):
    f=comps(n,edges,act); r={f(i) for i in range(n) if act[i]}
    return len(r)<=1
def tree(n,edges,act):
    if not any(act): return True
    k=sum(act); m=sum(1 for u,v in edges if act[u] and act[v])
    return connected(n,edges,act) and m==k-1
def forest(n,edges,on):
    par=list(range(n))
    def f(a):
        while par[a]!=a: par[a]=par[par[a]]; a=par[a]
        return a
    for (u,v),o in zip(edges,on):
        if o:
            if f(u)==f(v): return False
            par[f(u)]=f(v)
    return True
def single_cycle(n,edges,on):
    deg=[0]*n
    for (u,v),o in zip(edges,on):
        if o: deg[u]+=1; deg[v]+=1
    if any(d not in (0,2) for d in deg): return False
    if not any(on): return True
    par=list(range(n))
    def f(a):
        while par[a]!=a: par[a]=par[par[a]]; a=par[a]
        return a
    for (u,v),o in zip(edges,on):
        if o: par[f(u)]=f(v)
    return len({f(i) for i in range(n) if deg[i]})==1
bad=0;cnt=0
rnd=random.Random(5)
def graphs(nmax, multi):
    for n in range(1,nmax+1):
        pairs=[(i,j) for i in range(n) for j in range(i+1,n)]
        for mask in itertools.product([0,1,2] if multi else [0,1], repeat=len(pairs)):
            es=[]
            for p,k in zip(pairs,mask): es+=[p]*k
            if len(es)<=6: yield n,es
for n,es in graphs(4,False):
    g=graph.Graph(n)
    for u,v in es: g.add_edge(u,v)
    for acyc in (False,True):
        for act in itertools.product([False,True],repeat=n):
            s=Solver(); a=s.bool_array(n); graph.active_vertices_connected(s,a,g,acyclic=acyc)
            for i in range(n): s.ensure(a[i] if act[i] else ~a[i])
            r=s.find_answer('z3'); exp=(tree if acyc else connected)(n,es,act); cnt+=1
            if r!=exp: bad+=1; print('C04',n,es,acyc,act,r,exp)
print('C04',cnt,bad)
cnt2=0
for n,es in graphs(4,True):
    if not es or rnd.random()<0.7: continue
    g=graph.Graph(n)
    for u,v in es: g.add_edge(u,v)
    for on in itertools.product([False,True],repeat=len(es)):
        s=Solver(); e=s.bool_array(len(es)); graph.active_edges_acyclic(s,e,g)
        for i in range(len(es)): s.ensure(e[i] if on[i] else ~e[i])
        r=s.find_answer('z3'); exp=forest(n,es,on); cnt2+=1
        if r!=exp: bad+=1; print('C09',n,es,on,r,exp)
        s=Solver(); e=s.bool_array(len(es)); ps=graph.active_edges_single_cycle(s,e,g)
        for i in range(len(es)): s.ensure(e[i] if on[i] else ~e[i])
        r=s.find_answer('z3'); exp=single_cycle(n,es,on); cnt2+=1
        if r!=exp: bad+=1; print('C06',n,es,on,r,exp)
print('C09/C06',cnt2,bad)
