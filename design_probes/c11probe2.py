import itertools, random, sys, time
exec(open('c11probe.py').read().split('# ---------- cycles on lattice')[0])
rnd=random.Random(2); bad=0; n=0
N4=((1,0),(-1,0),(0,1),(0,-1))
def cellsets(h,w):
    for bits in itertools.product([0,1],repeat=h*w):
        yield {(i//w,i%w) for i,b in enumerate(bits) if b}
def allc(h,w): return [(y,x) for y in range(h) for x in range(w)]
def randrooms(h,w,k):
    # random partition into <=k connected rooms by growth
    cells=allc(h,w); rnd.shuffle(cells)
    seeds=cells[:k]; owner={s:i for i,s in enumerate(seeds)}
    frontier=list(seeds)
    while len(owner)<h*w:
        p=rnd.choice([q for q in owner]); d=rnd.choice(N4); q=(p[0]+d[0],p[1]+d[1])
        if 0<=q[0]<h and 0<=q[1]<w and q not in owner: owner[q]=owner[p]
    rooms=[[] for _ in range(k)]
    for c in allc(h,w): rooms[owner[c]].append(c)
    return [r for r in rooms if r]
def run(name, shapes, gen, solve, valid, reps=10, space=None):
    global bad,n
    b0=bad
    for (h,w) in shapes:
        for _ in range(reps):
            inst=gen(h,w)
            sols=[]
            for S in (space(h,w,inst) if space else cellsets(h,w)):
                if valid(h,w,inst,S): sols.append({c:(c in S) for c in allc(h,w)})
            is_sat,arr=solve(h,w,inst)
            got={(y,x):arr[y,x].sol for y in range(h) for x in range(w)}
            bad+=compare(name,(h,w,inst),is_sat,got,sols); n+=1
    print(name,'done; mismatches',bad-b0)
shapes=[(1,1),(1,3),(2,2),(2,3),(3,2),(3,3),(2,4),(3,4)]
# heyawake
from cspuz.puzzle import heyawake
def hey_gen(h,w):
    rooms=randrooms(h,w,rnd.choice([1,2,3])); clues=[rnd.choice([-1,-1,0,1,2]) for _ in rooms]; return rooms,clues
def hey_valid(h,w,inst,B):
    rooms,clues=inst
    for (y,x) in B:
        if (y+1,x) in B or (y,x+1) in B: return False
    W=set(allc(h,w))-B
    if not conn(W): return False
    rid={c:i for i,r in enumerate(rooms) for c in r}
    for r,c in zip(rooms,clues):
        if c>=0 and sum(1 for p in r if p in B)!=c: return False
    # white runs crossing 2 borders
    for y in range(h):
        x=0
        while x<w:
            if (y,x) in B: x+=1; continue
            x2=x; cross=0
            while x2+1<w and (y,x2+1) not in B:
                if rid[(y,x2)]!=rid[(y,x2+1)]: cross+=1
                x2+=1
            if cross>=2: return False
            x=x2+1
    for x in range(w):
        y=0
        while y<h:
            if (y,x) in B: y+=1; continue
            y2=y; cross=0
            while y2+1<h and (y2+1,x) not in B:
                if rid[(y2,x)]!=rid[(y2+1,x)]: cross+=1
                y2+=1
            if cross>=2: return False
            y=y2+1
    return True
run('heyawake',shapes,hey_gen,lambda h,w,i: heyawake.solve_heyawake(h,w,i[0],i[1]),hey_valid)
# akari
from cspuz.puzzle import akari
def ak_gen(h,w): return [[rnd.choice([-2,-2,-2,-1,0,1,2]) for x in range(w)] for y in range(h)]
def ak_valid(h,w,p,L):
    for (y,x) in L:
        if p[y][x]!=-2: return False
    def sees(y,x):
        out=[]
        for d in N4:
            yy,xx=y+d[0],x+d[1]
            while 0<=yy<h and 0<=xx<w and p[yy][xx]==-2:
                out.append((yy,xx)); yy+=d[0]; xx+=d[1]
        return out
    for y in range(h):
        for x in range(w):
            if p[y][x]==-2:
                s=sees(y,x)
                if (y,x) in L:
                    if any(q in L for q in s): return False
                elif not any(q in L for q in s): return False
            elif p[y][x]>=0:
                if sum(1 for d in N4 if (y+d[0],x+d[1]) in L)!=p[y][x]: return False
    return True
run('akari',shapes,ak_gen,akari.solve_akari,ak_valid)
# norinori
from cspuz.puzzle import norinori
def nori_valid(h,w,rooms,B):
    for (y,x) in B:
        if sum(1 for d in N4 if (y+d[0],x+d[1]) in B)!=1: return False
    return all(sum(1 for p in r if p in B)==2 for r in rooms)
run('norinori',shapes,lambda h,w: randrooms(h,w,rnd.choice([1,2,3])),norinori.solve_norinori,nori_valid)
# creek
from cspuz.puzzle import creek
def creek_gen(h,w): return [[rnd.choice([-1,-1,-1,0,1,2]) for x in range(w+1)] for y in range(h+1)]
def creek_valid(h,w,p,Wh):
    if not conn(Wh): return False
    for y in range(h+1):
        for x in range(w+1):
            if p[y][x]>=0:
                c=sum(1 for (yy,xx) in ((y-1,x-1),(y-1,x),(y,x-1),(y,x)) if 0<=yy<h and 0<=xx<w and (yy,xx) not in Wh)
                if c!=p[y][x]: return False
    return True
run('creek',shapes,creek_gen,creek.solve_creek,creek_valid)
# gokigen  (S = cells with '\')
from cspuz.puzzle import gokigen
def gok_valid(h,w,p,S):
    par={}
    def f(a):
        while par.setdefault(a,a)!=a: par[a]=par[par[a]]; a=par[a]
        return a
    deg={}
    for y in range(h):
        for x in range(w):
            e=((y,x),(y+1,x+1)) if (y,x) in S else ((y,x+1),(y+1,x))
            for v in e: deg[v]=deg.get(v,0)+1
            a,b=f(e[0]),f(e[1])
            if a==b: return False
            par[a]=b
    for y in range(h+1):
        for x in range(w+1):
            if p[y][x]>=0 and deg.get((y,x),0)!=p[y][x]: return False
    return True
run('gokigen',shapes,creek_gen,gokigen.solve_gokigen,gok_valid)
# yinyang
from cspuz.puzzle import yinyang
def yy_valid(h,w,p,B):
    Wh=set(allc(h,w))-B
    if not conn(B) or not conn(Wh): return False
    for y in range(h-1):
        for x in range(w-1):
            q=[(y,x),(y+1,x),(y,x+1),(y+1,x+1)]
            k=sum(1 for c in q if c in B)
            if k in (0,4): return False
    for y in range(h):
        for x in range(w):
            if p[y][x]==1 and (y,x) in B: return False
            if p[y][x]==2 and (y,x) not in B: return False
    return True
run('yinyang',shapes,lambda h,w:[[rnd.choice([0,0,0,1,2]) for x in range(w)] for y in range(h)],yinyang.solve_yinyang,yy_valid)
# putteria
from cspuz.puzzle import putteria
def put_valid(h,w,rooms,S):
    for (y,x) in S:
        if (y+1,x) in S or (y,x+1) in S: return False
    if any(sum(1 for p in r if p in S)!=1 for r in rooms): return False
    size={c:len(r) for r in rooms for c in r}
    L=list(S)
    for a in L:
        for b in L:
            if a<b and size[a]==size[b] and (a[0]==b[0] or a[1]==b[1]): return False
    return True
run('putteria',shapes,lambda h,w: randrooms(h,w,rnd.choice([1,2,3,4])),putteria.solve_putteria,put_valid)
# star battle (n<=4)
from cspuz.puzzle import star_battle
def sb_gen(h,w):
    rooms=None
    while rooms is None or len(rooms)!=h:
        rooms=randrooms(h,h,h)
    g=[[0]*h for _ in range(h)]
    for i,r in enumerate(rooms):
        for (y,x) in r: g[y][x]=i
    return g
def sb_valid(h,w,g,S):
    n=h
    for i in range(n):
        if sum(1 for x in range(n) if (i,x) in S)!=1 or sum(1 for y in range(n) if (y,i) in S)!=1: return False
        if sum(1 for (y,x) in S if g[y][x]==i)!=1: return False
    for (y,x) in S:
        for dy in (-1,0,1):
            for dx in (-1,0,1):
                if (dy,dx)!=(0,0) and (y+dy,x+dx) in S: return False
    return True
run('star_battle',[(1,1),(2,2),(3,3),(4,4)],sb_gen,lambda h,w,g: star_battle.solve_star_battle(h,g,1),sb_valid,reps=8)
print('total',n,'bad',bad)
