import sys, atheris
with atheris.instrument_imports(include=["cspuz"]):
    from cspuz.puzzle import sudoku, nurikabe
import collections
seen=collections.Counter()
def one(data):
    fdp = atheris.FuzzedDataProvider(data)
    s = fdp.ConsumeUnicodeNoSurrogates(64)
    url = "https://puzz.link/p?sudoku/4/4/" + s
    try:
        r = sudoku.deserialize_sudoku(url)
        seen['none' if r is None else 'ok']+=1
    except ValueError:
        seen['ValueError']+=1
    except Exception as e:
        seen[type(e).__name__]+=1
atheris.Setup(sys.argv, one)
import atexit; atexit.register(lambda: print(dict(seen)))
atheris.Fuzz()
