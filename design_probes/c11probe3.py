import itertools, random, sys, time
src=open('c11probe.py').read()
exec(src.split('bad=0; n=0')[0])
N4=((1,0),(-1,0),(0,1),(0,-1))
def allc(h,w): return [(y,x) for y in range(h) for x in range(w)]
rnd=random.Random(3); bad=0; n=0
def edge(c,a,b): return tuple(sorted((a,b))) in c
def frame_dict(h,w,c):
    d={}
    for y in range(h):
        for x in range(w):
            if x<w-1: d[('h',y,x)]=edge(c,(y,x),(y,x+1))
            if y<h-1: d[('v',y,x)]=edge(c,(y,x),(y+1,x))
    return d
def frame_got(h,w,gf):
    d={}
    for y in range(h):
        for x in range(w):
            if x<w-1: d[('h',y,x)]=gf.horizontal[y,x].sol
            if y<h-1: d[('v',y,x)]=gf.vertical[y,x].sol
    return d
def runloop(name,shapes,gen,solve,valid,reps=10):
    global bad,n
    b0=bad
    for (h,w) in shapes:
        cyc=all_cycles(h,w)
        for _ in range(reps):
            inst=gen(h,w)
            sols=[frame_dict(h,w,c) for c in cyc if valid(h,w,inst,c)]
            r=solve(h,w,inst)
            bad+=compare(name,(h,w,inst),r[0],frame_got(h,w,r[1]),sols); n+=1
    print(name,'done; mismatches',bad-b0)
lshapes=[(1,1),(1,3),(2,2),(2,3),(3,3),(3,4),(4,4)]
def arms(c,p):
    out=[]
    for d in N4:
        q=(p[0]+d[0],p[1]+d[1])
        if edge(c,p,q): out.append(d)
    return out
def runlen(c,p,d):
    k=0
    while edge(c,p,(p[0]+d[0],p[1]+d[1])): p=(p[0]+d[0],p[1]+d[1]); k+=1
    return k
# masyu
from cspuz.puzzle import masyu
def masyu_valid(h,w,p,c):
    for y in range(h):
        for x in range(w):
            if p[y][x]==0: continue
            a=arms(c,(y,x))
            if len(a)!=2: return False
            straight = a[0][0]==-a[1][0] and a[0][1]==-a[1][1]
            if p[y][x]==1:
                if not straight: return False
                # turn in at least one neighbour
                turns=0
                for d in a:
                    q=(y+d[0],x+d[1]); aq=arms(c,q)
                    if not (len(aq)==2 and aq[0][0]==-aq[1][0] and aq[0][1]==-aq[1][1]): turns+=1
                if turns==0: return False
            else:
                if straight: return False
                for d in a:
                    q=(y+d[0],x+d[1]); aq=arms(c,q)
                    if not (len(aq)==2 and aq[0][0]==-aq[1][0] and aq[0][1]==-aq[1][1]): return False
    return True
runloop('masyu',lshapes,lambda h,w:[[rnd.choice([0,0,0,0,1,2]) for x in range(w)] for y in range(h)],masyu.solve_masyu,masyu_valid)
# geradeweg
from cspuz.puzzle import geradeweg
def ger_valid(h,w,p,c):
    for y in range(h):
        for x in range(w):
            if p[y][x]>=1:
                a=arms(c,(y,x))
                if len(a)!=2: return False
                straight = a[0][0]==-a[1][0] and a[0][1]==-a[1][1]
                if straight:
                    if runlen(c,(y,x),a[0])+runlen(c,(y,x),a[1])!=p[y][x]: return False
                else:
                    if runlen(c,(y,x),a[0])!=p[y][x] or runlen(c,(y,x),a[1])!=p[y][x]: return False
    return True
runloop('geradeweg',lshapes,lambda h,w:[[rnd.choice([0,0,0,0,1,2,3]) for x in range(w)] for y in range(h)],geradeweg.solve_geradeweg,ger_valid)
# simpleloop (pivot consistent)
from cspuz.puzzle import simpleloop
def sl_gen(h,w):
    b=[[rnd.choice([0,0,0,1]) for x in range(w)] for y in range(h)]
    piv=(rnd.randrange(h),rnd.randrange(w))
    npass=sum(1 for y in range(h) for x in range(w) if (y,x)!=piv and b[y][x]==0)
    b[piv[0]][piv[1]]=1-npass%2
    return b,piv
def sl_valid(h,w,inst,c):
    b,piv=inst
    passed={p for e in c for p in e}
    return all(((y,x) in passed)==(b[y][x]==0) for y in range(h) for x in range(w))
runloop('simpleloop',lshapes,sl_gen,lambda h,w,i: simpleloop.solve_simpleloop(h,w,i[0],i[1]),sl_valid)
# castle wall
from cspuz.puzzle import castle_wall
def cw_gen(h,w):
    ar=[['..']*w for _ in range(h)]; ins=[[None]*w for _ in range(h)]
    for k in range(rnd.choice([0,1,1,2])):
        y=rnd.randrange(h); x=rnd.randrange(w)
        ar[y][x]=rnd.choice(['^','v','<','>'])+str(rnd.choice([0,1,1,2])) if rnd.random()<0.8 else '??'
        ins[y][x]=rnd.choice([True,False,None])
    return ar,ins
def inside(c,h,w,p):
    # ray cast to the left from cell centre p: count vertical edges crossing? use edges between (y,x')-(y+1,x') hmm
    # cell p=(y,x) is a lattice vertex; shoot ray upward-left diagonal... use ray to the left slightly below the vertex row: crosses vertical edges ((y,x'),(y+1,x')) for x'<x
    y,x=p
    if y+1<h:
        return sum(1 for x2 in range(0,x) if edge(c,(y,x2),(y+1,x2)))%2==1
    else:
        return sum(1 for x2 in range(0,x) if edge(c,(y-1,x2),(y,x2)))%2==1
def cw_valid(h,w,inst,c):
    ar,ins=inst
    passed={p for e in c for p in e}
    for y in range(h):
        for x in range(w):
            a=ar[y][x]
            if a=='..': continue
            if (y,x) in passed: return False
            if a[0]=='^': k=sum(1 for y2 in range(0,y) if edge(c,(y2,x),(y2+1,x)))
            elif a[0]=='v': k=sum(1 for y2 in range(y,h-1) if edge(c,(y2,x),(y2+1,x)))
            elif a[0]=='<': k=sum(1 for x2 in range(0,x) if edge(c,(y,x2),(y,x2+1)))
            elif a[0]=='>': k=sum(1 for x2 in range(x,w-1) if edge(c,(y,x2),(y,x2+1)))
            else: k=None
            if k is not None and k!=int(a[1:]): return False
            if ins[y][x] is not None and inside(c,h,w,(y,x))!=ins[y][x]: return False
    return True
runloop('castle_wall',[(2,2),(2,3),(3,3),(3,4),(4,4)],cw_gen,lambda h,w,i: castle_wall.solve_castle_wall(h,w,i[0],i[1]),cw_valid)
print('total',n,'bad',bad)
