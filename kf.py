#!/usr/bin/env python3
"""kf.py fixed|known <property> <mech> <commit-or-> <what>   — edit known_findings.json by hand-run only (never at check time)."""
import json
import sys

status, prop, mech, commit, what = sys.argv[1:6]
k = json.load(open("known_findings.json"))
e = {"status": status, "property": prop, "mech": mech, "what": what}
if status == "fixed":
    e["commit"] = commit
    e["line"] = f"fixed: property={prop} {commit} {what}"
else:
    e["line"] = f"KNOWN-FINDING: property={prop} {mech}: {what}"
k["entries"] = [x for x in k["entries"] if not (x["property"] == prop and x["mech"] == mech)] + [e]
json.dump(k, open("known_findings.json", "w"), indent=1)
print(e["line"])
