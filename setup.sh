#!/bin/bash
# Offline bootstrap: third-party monitor libraries go beside the repository's own
# interpreter (/venv) into /verif/.deps (git-ignored).  Idempotent.
set -e
cd "$(dirname "$0")"
if [ ! -f .deps/.ok ]; then
  rm -rf .deps
  PIP_NO_INDEX=1 /venv/bin/pip install -q --no-index --find-links /opt/veriftools/wheels \
      --target .deps icontract deal atheris jsonschema >/dev/null 2>.deps.log || {
        cat .deps.log >&2; exit 3; }
  touch .deps/.ok
fi
rm -f .deps.log
exit 0
