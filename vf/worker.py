"""One shard of one property's workload (spawned by vf.runner)."""
import importlib
import sys
import traceback


def main():
    prop, tier, seed, shard, nshards, out = sys.argv[1:7]
    from . import boot

    boot.check_repo_import()
    from .ctx import Ctx

    ctx = Ctx(prop, tier, int(seed), int(shard), int(nshards))
    mod = importlib.import_module("vf.props." + prop.lower())
    from .ctx import ShardAbort

    try:
        mod.run(ctx)
    except ShardAbort:
        ctx.note("shard aborted after repeated case timeouts")
    except BaseException:
        traceback.print_exc()
        ctx.dump(out + ".partial")
        sys.exit(3)
    ctx.dump(out)


if __name__ == "__main__":
    main()
