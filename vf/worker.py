"""One shard of one property's workload (spawned by vf.runner)."""
import importlib
import sys
import traceback


def main():
    prop, tier, seed, shard, nshards, out = sys.argv[1:7]
    import os as _os

    if _os.environ.get("VERIF_COVER"):
        from . import cover

        cover.start(_os.environ.get("VERIF_REPO", "/repo"))  # before the repository is imported: class bodies and defs count too
    from . import boot

    boot.check_repo_import()
    from .ctx import Ctx

    ctx = Ctx(prop, tier, int(seed), int(shard), int(nshards))
    mod = importlib.import_module("vf.props." + prop.lower())
    from .ctx import ShardAbort

    try:
        mod.run(ctx)
    except ShardAbort:
        ctx.note("shard aborted after repeated case timeouts")
    except BaseException as e:
        traceback.print_exc()
        # safety net: an exception that escaped a driver and was raised from inside the code under test is a finding
        # about that code (the driver only feeds it inputs the property quantifies over), not a reason to lose the shard
        import os

        repo = os.path.realpath(os.environ.get("VERIF_REPO", "/repo"))
        frames = traceback.extract_tb(e.__traceback__)
        inner = frames[-1] if frames else None
        in_repo = [f for f in frames if os.path.realpath(f.filename).startswith(repo + os.sep)]
        if isinstance(e, Exception) and in_repo and inner is not None and not os.path.realpath(inner.filename).startswith(os.path.realpath(boot.HOME) + os.sep):
            site = in_repo[-1]
            ctx.violation(f"uncaught:{type(e).__name__}:{os.path.basename(site.filename)}:{site.name}",
                          f"the code under test raised {e!r} (escaped the driver; the rest of this shard's workload was not run)",
                          {"case": ctx.current_case, "traceback": traceback.format_exc()[-1500:]})
            ctx.count("shard_stopped_by_exception_in_repo")
            ctx.dump(out)
            return
        ctx.dump(out + ".partial")
        sys.exit(3)
    gd = sys.modules.get("vf.workloads.graphdrv")
    if gd is not None and gd.WARM["used"]:
        ctx.count("graphs.history_uses_before_add_edge", gd.WARM["used"])
        ctx.count("graphs.history_uses_raised", gd.WARM["raised"])
    ctx.dump(out)
    if _os.environ.get("VERIF_COVER"):
        cover.dump(out + ".reach")


if __name__ == "__main__":
    main()
