"""Recording context shared by monitors and workload drivers inside one shard.

Everything a check later reports (evaluations, distinct cases, counters,
violations, inconclusive cases, samples) goes through this object so that the
evidence describes what the monitors actually observed.
"""
import hashlib
import json
import os
import random
import struct
import time
from array import array


def _h64(obj):
    if not isinstance(obj, (bytes, str)):
        obj = json.dumps(obj, sort_keys=True, default=repr)
    if isinstance(obj, str):
        obj = obj.encode("utf-8", "surrogatepass")
    return struct.unpack("<Q", hashlib.blake2b(obj, digest_size=8).digest())[0]


class CaseTimeout(BaseException):
    """A single case exceeded its generous wall-clock guard: inconclusive, never a verdict."""


class ShardAbort(BaseException):
    """Too many case timeouts in this shard: stop the shard, the run is inconclusive."""


class _Guard:
    def __init__(self, ctx, seconds, what):
        self.ctx, self.seconds, self.what = ctx, seconds, what

    def _fire(self, signum, frame):
        # the exception may surface wrapped (raised inside a ctypes argument conversion it becomes ctypes.ArgumentError) and be
        # caught by a driver's catch-all: from now on nothing the case reports counts, the guard's exit turns it into a time-out
        self.ctx.guard_interrupted = True
        raise CaseTimeout()

    def __enter__(self):
        import signal

        self.old = signal.signal(signal.SIGALRM, self._fire)
        signal.setitimer(signal.ITIMER_REAL, self.seconds)
        # a Python-level signal handler cannot run while the interpreter sits inside one long native z3 call: a watchdog
        # thread asks z3 to give up (the call returns 'unknown'), the pending SIGALRM then raises CaseTimeout at once
        import threading

        self.lock = threading.Lock()
        self.active = True
        self.timer = threading.Timer(self.seconds + 0.3, self._interrupt_z3)
        self.timer.daemon = True
        self.timer.start()
        return self

    def _interrupt_z3(self):
        with self.lock:
            if not self.active:
                return
            # from here on the case is over time: whatever the interrupted code under test does next (z3's check() comes back
            # 'unknown', the back end then fails on model()) is an artefact of the interrupt, not an observation
            self.ctx.guard_interrupted = True
            try:
                import z3

                z3.main_ctx().interrupt()
            except Exception:
                pass

    def __exit__(self, et, ev, tb):
        import signal

        signal.setitimer(signal.ITIMER_REAL, 0)
        signal.signal(signal.SIGALRM, self.old)
        with self.lock:
            self.active = False
        self.timer.cancel()
        was_interrupted, self.ctx.guard_interrupted = self.ctx.guard_interrupted, False
        if was_interrupted and et is not CaseTimeout:
            # the watchdog fired but the pending alarm has not raised yet (the interrupted call failed first): same outcome
            self.ctx.count("case_timeouts")
            self.ctx.inconc(f"case exceeded {self.seconds}s guard (interrupted)", self.what if self.what is not None else self.ctx.current_case)
            if self.ctx.counters.get("case_timeouts", 0) >= 3:
                self.ctx.count("shard_aborted")
                raise ShardAbort()
            return True
        if et is CaseTimeout:
            self.ctx.count("case_timeouts")
            self.ctx.inconc(f"case exceeded {self.seconds}s guard", self.what if self.what is not None else self.ctx.current_case)
            if self.ctx.counters.get("case_timeouts", 0) >= 3:
                self.ctx.count("shard_aborted")
                raise ShardAbort()
            return True
        return False


class Ctx:
    MAX_VIOL = 60  # violations kept with full witness per shard (all are counted)

    def __init__(self, prop, tier, seed, shard, nshards):
        self.prop = prop
        self.tier = tier
        self.seed = seed
        self.shard = shard
        self.nshards = nshards
        self.rng = random.Random(f"{prop}/{seed}/{shard}")
        self.evaluations = 0
        self.guard_interrupted = False
        self.case_hashes = set()
        self.nontrivial_hashes = set()
        self.counters = {}
        self.violations = []
        self.violation_total = 0
        self.viol_by_mech = {}
        self.inconclusive = []
        self.inconclusive_total = 0
        self.samples = []
        self.exhaustive = {}
        self.notes = []
        self.t0 = time.time()
        self.current_case = None

    # ---- cases -----------------------------------------------------------
    def case(self, key, nontrivial=True, n=1):
        """Register one explored case (key = canonical, JSON-able descriptor)."""
        self.evaluations += n
        h = _h64(key)
        self.case_hashes.add(h)
        if nontrivial:
            self.nontrivial_hashes.add(h)
        return h

    def mine(self, index):
        """Deterministic work split: is item `index` this shard's?"""
        return index % self.nshards == self.shard

    def guard(self, seconds=60, what=None):
        """with ctx.guard(60): run one case; a hang becomes an inconclusive case."""
        return _Guard(self, seconds, what)

    def count(self, name, n=1):
        self.counters[name] = self.counters.get(name, 0) + n

    def sample(self, obj, limit=6):
        if len(self.samples) < limit:
            self.samples.append(obj)

    def note(self, s):
        if s not in self.notes:
            self.notes.append(s)

    # ---- verdicts ----------------------------------------------------------
    def violation(self, mech, what, witness):
        """mech: mechanism-level key (used by the known-findings classifier);
        what: one-line human description; witness: JSON-able replay descriptor."""
        if self.guard_interrupted:
            self.count("observations_discarded_after_watchdog_interrupt")
            return
        self.violation_total += 1
        self.viol_by_mech[mech] = self.viol_by_mech.get(mech, 0) + 1
        per = sum(1 for v in self.violations if v["mech"] == mech)
        if per < 2 and len(self.violations) < 400:
            self.violations.append({"mech": mech, "what": what, "witness": witness})

    def inconc(self, reason, witness=None):
        self.inconclusive_total += 1
        if len(self.inconclusive) < 20:
            self.inconclusive.append({"reason": reason, "witness": witness})

    # ---- dump --------------------------------------------------------------
    def dump(self, path):
        hpath = path + ".hashes"
        with open(hpath, "wb") as f:
            array("Q", sorted(self.case_hashes)).tofile(f)
        with open(path + ".nthashes", "wb") as f:
            array("Q", sorted(self.nontrivial_hashes)).tofile(f)
        out = {
            "shard": self.shard,
            "evaluations": self.evaluations,
            "counters": self.counters,
            "violations": self.violations,
            "violation_total": self.violation_total,
            "viol_by_mech": self.viol_by_mech,
            "inconclusive": self.inconclusive,
            "inconclusive_total": self.inconclusive_total,
            "samples": self.samples,
            "exhaustive": self.exhaustive,
            "notes": self.notes,
            "wall_s": time.time() - self.t0,
        }
        tmp = path + ".tmp"
        with open(tmp, "w") as f:
            json.dump(out, f, default=repr)
        os.replace(tmp, path)
