"""Reach report (VERIF_COVER=1): which lines of the repository's cspuz/ and bench/ sources did a check's workload execute?

sys.monitoring LINE events with DISABLE after the first hit of each location (every line costs one callback in total), so the
overhead is small.  Not part of any verdict: it shows where the anchored code is never driven - where a breaking change could
not be seen by the monitors - and is written to evidence/<id>.json as coverage.reach when enabled."""
import os
import sys

TOOL = 3  # sys.monitoring tool id (a free one; 0-2 are debugger / coverage / profiler by convention, 5 is the optimizer)
_hit = set()
_root = None


def start(repo):
    global _root
    _root = os.path.realpath(repo) + os.sep
    mon = sys.monitoring
    try:
        mon.use_tool_id(TOOL, "verif-reach")
    except ValueError:
        return False

    def on_line(code, line):
        fn = code.co_filename
        if fn.startswith(_root) or os.path.realpath(fn).startswith(_root):
            _hit.add((os.path.realpath(fn)[len(_root):], line))
        return mon.DISABLE

    mon.register_callback(TOOL, mon.events.LINE, on_line)
    mon.set_events(TOOL, mon.events.LINE)
    return True


def dump(path):
    import json

    with open(path, "w") as f:
        json.dump(sorted(_hit), f)


def executable_lines(path):
    """line numbers that carry code, per function: {qualified name: [lines]} (from the compiled code objects)"""
    with open(path) as f:
        src = f.read()
    top = compile(src, path, "exec")
    out = {}

    def walk(code, prefix):
        name = prefix + code.co_name if code.co_name != "<module>" else "<module>"
        lines = sorted({ln for _, _, ln in code.co_lines() if ln is not None and ln > 0})
        out.setdefault(name, set()).update(lines)
        for c in code.co_consts:
            if hasattr(c, "co_code"):
                walk(c, (name + "." if name != "<module>" else ""))
    walk(top, "")
    # a nested code object's lines also appear in nothing else; the def line itself belongs to the parent
    return {k: sorted(v) for k, v in out.items()}


def report(repo, hits, files):
    """hits: iterable of (relative file, line); files: relative paths to report on -> dict for the evidence file"""
    by = {}
    for fn, ln in hits:
        by.setdefault(fn, set()).add(ln)
    rep = {}
    for rel in files:
        p = os.path.join(repo, rel)
        if not os.path.exists(p) or not rel.endswith(".py"):
            continue
        ex = executable_lines(p)
        got = by.get(rel, set())
        total = sorted({ln for v in ex.values() for ln in v})
        unreached = {}
        for fn, lines in ex.items():
            if fn == "<module>":
                continue
            body = [ln for ln in lines[1:]] if len(lines) > 1 else lines  # skip the def line
            miss = [ln for ln in body if ln not in got]
            if miss:
                unreached[fn] = {"missed": len(miss), "of": len(body), "lines": miss[:40]}
        rep[rel] = {"executable_lines": len(total), "reached": len([ln for ln in total if ln in got]),
                    "functions_with_unreached_lines": unreached}
    return rep
