"""./check front end: shards a property's workload over the cores, merges the
shard logs, classifies violations against known_findings.json, writes the
evidence file and decides the exit code.

exit 0  property held on everything observed (known findings are printed)
exit 1  VIOLATION property=<id> replay=<path>   (an unlisted violation)
exit 2  INCONCLUSIVE property=<id> reason=...   (monitor never reached, shard died, ...)
"""
import argparse
import importlib
import json
import os
import shutil
import subprocess
import sys
import time
from array import array

HOME = os.environ.get("VERIF_HOME") or os.path.dirname(os.path.dirname(os.path.abspath(__file__)))
REPO = os.environ.get("VERIF_REPO", "/repo")


def load_known():
    with open(os.path.join(HOME, "known_findings.json")) as f:
        data = json.load(f)
    known = {}
    for e in data["entries"]:
        if e["status"] == "known":
            known[(e["property"], e["mech"])] = e
    return known


def _read_hashes(path):
    a = array("Q")
    if os.path.exists(path):
        with open(path, "rb") as f:
            a.frombytes(f.read())
    return a


def main(argv=None):
    ap = argparse.ArgumentParser()
    ap.add_argument("prop")
    ap.add_argument("--tier", default=os.environ.get("VERIF_TIER", "quick"), choices=["quick", "thorough"])
    ap.add_argument("--replay", default=None)
    ap.add_argument("--shards", type=int, default=None)
    ap.add_argument("--keep", action="store_true")
    args = ap.parse_args(argv)
    prop = args.prop.upper()
    seed = int(os.environ.get("VERIF_SEED", "0") or 0)
    mod = importlib.import_module("vf.props." + prop.lower())

    if args.replay:
        return replay(mod, prop, args.replay)

    t0 = time.time()
    plan = mod.plan(args.tier) if hasattr(mod, "plan") else {}
    nshards = args.shards or plan.get("shards", min(16, os.cpu_count() or 4))
    timeout = plan.get("timeout", 1500 if args.tier == "quick" else 6 * 3600)
    rundir = os.path.join(HOME, "evidence", f".run-{prop}-{os.getpid()}")
    shutil.rmtree(rundir, ignore_errors=True)
    os.makedirs(rundir)
    env = dict(os.environ)
    env["CSPUZ_VERIF"] = "1"
    procs = []
    for i in range(nshards):
        out = os.path.join(rundir, f"shard-{i}.json")
        log = open(os.path.join(rundir, f"shard-{i}.log"), "w")
        p = subprocess.Popen(
            [sys.executable, "-X", "faulthandler", "-m", "vf.worker", prop, args.tier, str(seed), str(i), str(nshards), out],
            stdout=log, stderr=subprocess.STDOUT, env=env, cwd=HOME,
        )
        procs.append((i, p, out, log))
    dead = []
    deadline = time.time() + timeout
    for i, p, out, log in procs:
        try:
            rc = p.wait(timeout=max(1, deadline - time.time()))
        except subprocess.TimeoutExpired:
            p.kill()
            p.wait()
            rc = "watchdog"
        log.close()
        if rc != 0 or not os.path.exists(out):
            tail = ""
            try:
                with open(os.path.join(rundir, f"shard-{i}.log")) as f:
                    tail = f.read()[-1500:]
            except OSError:
                pass
            dead.append((i, rc, tail))

    # ---- merge ---------------------------------------------------------------
    evaluations = 0
    counters = {}
    violations = []
    violation_total = 0
    viol_by_mech = {}
    inconclusive = []
    inconclusive_total = 0
    samples = []
    exhaustive = {}
    notes = []
    hashes = set()
    nthashes = set()
    reach_hits = set()
    for i, p, out, log in procs:
        if not os.path.exists(out):
            # a shard that died in the harness still reports what its monitors had already seen (it stays in `dead`)
            out = out + ".partial"
            if not os.path.exists(out):
                continue
        with open(out) as f:
            d = json.load(f)
        evaluations += d["evaluations"]
        for k, v in d["counters"].items():
            counters[k] = counters.get(k, 0) + v
        violations += d["violations"]
        violation_total += d["violation_total"]
        for k, v in d["viol_by_mech"].items():
            viol_by_mech[k] = viol_by_mech.get(k, 0) + v
        inconclusive += d["inconclusive"]
        inconclusive_total += d["inconclusive_total"]
        for s in d["samples"]:
            if len(samples) < 8:
                samples.append(s)
        for k, v in d["exhaustive"].items():
            exhaustive[k] = exhaustive.get(k, True) and v
        for n in d["notes"]:
            if n not in notes:
                notes.append(n)
        hashes.update(_read_hashes(out + ".hashes"))
        nthashes.update(_read_hashes(out + ".nthashes"))
        if os.path.exists(out + ".reach"):
            with open(out + ".reach") as f:
                reach_hits.update(tuple(x) for x in json.load(f))

    known = load_known()
    new_viol = []
    known_hit = {}
    for mech, n in viol_by_mech.items():
        if (prop, mech) in known:
            known_hit[mech] = n
    for v in violations:
        if (prop, v["mech"]) not in known:
            new_viol.append(v)
    new_mechs = {m: n for m, n in viol_by_mech.items() if (prop, m) not in known}

    reasons = []
    for i, rc, tail in dead:
        reasons.append(f"shard {i} ended with {rc}")
    if counters.get("shard_stopped_by_exception_in_repo", 0) and not new_mechs:
        reasons.append("a shard was stopped by an exception raised in the code under test")
    if counters.get("shard_aborted", 0):
        reasons.append(f"{counters['shard_aborted']} shard(s) aborted after repeated case timeouts")
    required = list(getattr(mod, "REQUIRED", []))
    if hasattr(mod, "required"):
        required = mod.required(args.tier)
    for r in required:
        if counters.get(r, 0) <= 0:
            reasons.append(f"must-reach counter '{r}' is 0")
    inc_cap = getattr(mod, "INCONCLUSIVE_CAP", 0.02)
    if evaluations and inconclusive_total > inc_cap * evaluations + 5:
        reasons.append(f"{inconclusive_total} inconclusive cases of {evaluations}")
    if evaluations == 0:
        reasons.append("no case was evaluated")
    if len(nthashes) < 2:
        reasons.append("fewer than 2 distinct non-trivial cases")

    # ---- evidence ------------------------------------------------------------
    coverage = {
        "evaluations": evaluations,
        "distinct_nontrivial": len(nthashes),
        "distinct_cases": len(hashes),
        "rule": getattr(mod, "RULE", ""),
        "samples": samples if samples else [],
        "monitor_counters": dict(sorted(counters.items())),
        "inconclusive_cases": inconclusive_total,
        "inconclusive_examples": inconclusive[:5],
        "known_findings_observed": known_hit,
        "new_violation_mechanisms": new_mechs,
        "shards": nshards,
        "shards_dead": [[i, str(rc)] for i, rc, _ in dead],
        "notes": notes,
        "repo": REPO,
    }
    if reach_hits:
        # VERIF_COVER=1: which lines of the property's anchored files the workload executed (reach, not a verdict)
        from . import cover

        anchors = []
        try:
            with open(os.path.join(HOME, "properties.jsonl")) as f:
                for line in f:
                    d = json.loads(line)
                    if d["id"] == prop:
                        anchors = [a for a in d["anchors"]["files"] if a.endswith(".py")]
        except Exception:
            pass
        coverage["reach"] = cover.report(REPO, reach_hits, anchors)
    if exhaustive:
        coverage["exhaustive_spaces"] = exhaustive
        coverage["exhaustive"] = all(exhaustive.values())
    if hasattr(mod, "finalize"):
        try:
            coverage.update(mod.finalize(counters, args.tier) or {})
        except Exception as e:  # noqa
            reasons.append(f"finalize failed: {e!r}")
    evid = {
        "property_id": prop,
        "tier": args.tier,
        "seed": seed,
        "level": "exploration",
        "coverage": coverage,
        "assumptions": list(getattr(mod, "ASSUMPTIONS", [])),
        "wall_s": round(time.time() - t0, 2),
        "violations": sum(new_mechs.values()),
        "verdict": "violated" if new_mechs else ("inconclusive" if reasons else "held-on-observed"),
        "inconclusive_reasons": reasons,
    }
    edir = os.environ.get("VERIF_EVIDENCE_DIR") or os.path.join(HOME, "evidence")
    os.makedirs(edir, exist_ok=True)
    epath = os.path.join(edir, f"{prop}.json")
    with open(epath + f".tmp{os.getpid()}", "w") as f:
        json.dump(evid, f, indent=1, default=repr)
    os.replace(epath + f".tmp{os.getpid()}", epath)
    try:
        import jsonschema

        with open(os.path.join(HOME, "schemas", "EVIDENCE.schema.json")) as f:
            schema = json.load(f)
        jsonschema.validate(evid, schema)
    except ImportError:
        pass
    except Exception as e:  # schema violation = broken harness
        reasons.append(f"evidence does not validate: {str(e)[:200]}")

    # ---- report ----------------------------------------------------------------
    print(f"[{prop}] tier={args.tier} seed={seed} shards={nshards} evaluations={evaluations} "
          f"distinct_nontrivial={len(nthashes)} wall={evid['wall_s']}s")
    shown = 0
    for k, v in sorted(counters.items()):
        if shown < 40:
            print(f"   {k} = {v}")
            shown += 1
    for mech, n in sorted(known_hit.items()):
        e = known[(prop, mech)]
        print(f"KNOWN-FINDING: property={prop} {mech}: {e['what']} (observed {n}x)")
    rc = 0
    if new_mechs:
        rdir = os.path.join(os.environ.get("VERIF_REPLAY_DIR") or os.path.join(HOME, "replays"), prop)
        os.makedirs(rdir, exist_ok=True)
        seen = set()
        for v in new_viol:
            if v["mech"] in seen:
                continue
            seen.add(v["mech"])
            from .ctx import _h64

            rp = os.path.join(rdir, f"{_h64(v):016x}.json")
            with open(rp, "w") as f:
                json.dump({"property": prop, "seed": seed, "tier": args.tier, **v}, f, indent=1, default=repr)
            print(f"   mechanism {v['mech']} ({viol_by_mech.get(v['mech'])}x): {v['what']}")
            print(f"VIOLATION property={prop} replay={os.path.relpath(rp, HOME)}")
        for m in new_mechs:
            if m not in seen:  # counted but witness list was capped
                print(f"VIOLATION property={prop} replay=evidence/{prop}.json#{m}")
        rc = 1
    elif reasons:
        print(f"INCONCLUSIVE property={prop} reason={'; '.join(reasons)}")
        for i, r, tail in dead[:3]:
            print(f"--- shard {i} log tail ---\n{tail}")
        rc = 2
    else:
        print(f"[{prop}] held on everything observed")
    if not args.keep and rc != 2:
        shutil.rmtree(rundir, ignore_errors=True)
    return rc


def replay(mod, prop, path):
    from .ctx import Ctx

    if not os.path.isabs(path):
        path = os.path.join(HOME, path)
    with open(path) as f:
        v = json.load(f)
    from . import boot  # noqa

    ctx = Ctx(prop, v.get("tier", "quick"), v.get("seed", 0), 0, 1)
    mod.replay(v["witness"], ctx)
    known = load_known()
    print(json.dumps({"violations": ctx.violations, "counters": ctx.counters}, indent=1, default=repr))
    bad = [x for x in ctx.violations if (prop, x["mech"]) not in known]
    if bad:
        print(f"VIOLATION property={prop} replay={path}")
        return 1
    print("replay: no violation reproduced")
    return 0


if __name__ == "__main__":
    sys.exit(main())
