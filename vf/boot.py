"""Process set-up for every worker: the guard, the import path, faulthandler.

With CSPUZ_VERIF unset the harness refuses to attach monitors, and the
repository runs exactly as shipped (no source hooks exist in /repo).
"""
import faulthandler
import os
import sys
import warnings

HOME = os.environ.get("VERIF_HOME") or os.path.dirname(os.path.dirname(os.path.abspath(__file__)))
REPO = os.environ.get("VERIF_REPO", "/repo")
GUARD = os.environ.get("CSPUZ_VERIF", "") not in ("", "0")

if not GUARD:
    raise SystemExit("vf: CSPUZ_VERIF is not set; monitors are not installed")

for p in (os.path.join(HOME, ".deps"), HOME, REPO):
    if p in sys.path:
        sys.path.remove(p)
sys.path.insert(0, os.path.join(HOME, ".deps"))
sys.path.insert(0, HOME)
sys.path.insert(0, REPO)  # the working tree under test shadows the editable install

faulthandler.enable()
sys.setrecursionlimit(max(sys.getrecursionlimit(), 1000))
warnings.filterwarnings("ignore", message="no answer key is given")


def check_repo_import():
    import cspuz

    src = os.path.realpath(os.path.dirname(cspuz.__file__))
    want = os.path.realpath(os.path.join(REPO, "cspuz"))
    if src != want:
        raise SystemExit(f"vf: cspuz imported from {src}, expected {want}")
