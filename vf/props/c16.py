"""C16  Puzzle URL codecs round-trip and agree with the puzz.link / pzv format.

Deciding method: every serialize_* / deserialize_* / *_url function of the
puzzle modules is executed on generated problems of its format and judged at
the client boundary: (1) decode(encode(p)) == p incl. dimensions, (2) URL head
name/W/H in puzz.link order, (3) the body read by an independent pzpr decoder
(refs/pzpr) equals the problem, (4) legacy helper encoders and combinator codecs
emit identical text for identical data."""
import json

from cspuz import problem_serializer as PS
from cspuz.puzzle import (aquarium, compass, heyawake, lits, masyu, norinori, nurikabe, nurimisaki, slitherlink, star_battle,
                          sudoku, util, yajilin)

from ..refs import pzpr
from ..workloads import codecs as K

RULE = ("per module a problem generator over its problem format: nurikabe (0, -1, 1..300 and 4095), masyu, slitherlink (-1..4), sudoku "
        "(n = 2, 3, 4), nurimisaki, yajilin ('..', four directions with 0..20, '??'), heyawake (room partitions x clues -1..300), lits, "
        "norinori, compass (to_/parse_), star battle, aquarium; boards 1..12 x 1..12, non-square in both orientations; one evaluation = "
        "one problem pushed through encode / decode / independent decode / legacy encode; distinct by (module, problem); non-trivial when "
        "the problem has at least one non-blank cell or more than one room")
ASSUMPTIONS = ["refs/pzpr.py implements the pzpr body grammar (number16, 4cell, circle, arrownumber16, border, room numbers, compass) as documented "
               "in DESIGN.md Appendix B", "pzpr yajilin numbers >= 16 use the direction+5 two-digit form"]
MODULES = ["nurikabe", "masyu", "slitherlink", "sudoku", "nurimisaki", "yajilin", "heyawake", "lits", "norinori", "compass", "star_battle", "aquarium"]
REQUIRED = ["c16.roundtrip_checked", "c16.pzpr_checked", "c16.head_checked", "c16.legacy_checked", "c16.nonsquare", "c16.recorded_urls", "c16.encode_repeated", "c16.decode_repeated", "c16.heyawake_rect_form"] + ["c16.mod." + m for m in MODULES]


def plan(tier):
    return {"shards": 16}


def shape(rng, lo=1, hi=12):
    if rng.random() < 0.25:
        return rng.choice([(1, rng.randint(1, hi)), (rng.randint(1, hi), 1)])
    return rng.randint(lo, hi), rng.randint(lo, hi)


def num_grid(rng, h, w, blank, extra, density=None):
    d = density if density is not None else rng.choice([0.0, 0.1, 0.3, 0.6, 1.0])
    big = [1, 2, 9, 10, 15, 16, 17, 99, 255, 256, 300, 4095]
    out = []
    for y in range(h):
        row = []
        for x in range(w):
            if rng.random() < d:
                k = rng.random()
                row.append(rng.choice(extra) if (extra and k < 0.2) else (rng.choice(big) if k < 0.5 else rng.randint(1, 20)))
            else:
                row.append(blank)
        out.append(row)
    return out


def ids_equal_partition(a, b):
    """two id grids describe the same partition (ids up to renaming)"""
    m1, m2 = {}, {}
    if len(a) != len(b) or any(len(ra) != len(rb) for ra, rb in zip(a, b)):
        return False
    for ra, rb in zip(a, b):
        for x, y in zip(ra, rb):
            if m1.setdefault(x, y) != y or m2.setdefault(y, x) != x:
                return False
    return True


class Judge:
    def __init__(self, ctx, mod, problem, h, w, sub=""):
        self.ctx, self.mod, self.sub = ctx, mod, sub
        self.w = {"module": mod, "height": h, "width": w, "problem": repr(problem)[:700]}
        ctx.current_case = self.w
        ctx.count("c16.mod." + mod)
        if h != w:
            ctx.count("c16.nonsquare")

    def fail(self, kind, what, **extra):
        self.ctx.violation(f"{kind}:{self.mod}{self.sub}", what, dict(self.w, **extra))
        return False

    def call(self, kind, fn, *a):
        import copy

        try:
            r = fn(*a)
        except Exception as e:
            self.fail(f"{kind}-raises:{type(e).__name__}", f"{kind} raised {e!r}")
            return False, None
        if kind not in ("encode", "decode"):
            return True, r
        # history: the codecs are module-level objects used again and again; a second identical call must give the same answer,
        # also after the caller has edited what the first call handed back
        keep = copy.deepcopy(r)
        if kind == "decode":
            from .c15 import scramble_in_place

            scramble_in_place(r, self.ctx.rng)
        try:
            r2 = fn(*a)
        except Exception as e:
            self.fail(f"{kind}-second-call-raises:{type(e).__name__}", f"second identical {kind} call raised {e!r}")
            return True, keep
        self.ctx.count(f"c16.{kind}_repeated")
        if r2 != keep:
            self.fail(f"{kind}-not-repeatable", f"second identical {kind} call gave {repr(r2)[:200]}, the first gave {repr(keep)[:200]}")
        return True, keep

    def head(self, url, name, h, w):
        self.ctx.count("c16.head_checked")
        try:
            nm, cols, rows, rest = pzpr.split_url(url)
        except Exception as e:
            self.fail("head", f"URL {url!r} does not have the puzz.link shape: {e!r}", url=url)
            return None
        if nm != name or cols != w or rows != h:
            self.fail("head", f"URL head {nm}/{cols}/{rows}, expected {name}/{w}/{h} (name/width/height)", url=url)
            return None
        return rest

    def same(self, kind, got, want, url=None):
        self.ctx.count(f"c16.{kind}_checked")
        if got != want:
            self.fail(kind, f"{kind}: got {repr(got)[:300]}, expected {repr(want)[:300]}", url=url)
            return False
        return True


def grid_codec(ctx, rng, mod, name, gen, enc, dec, indep, legacy=None):
    h, w = shape(rng)
    p = gen(rng, h, w)
    nontrivial = any(x != p[0][0] for r in p for x in r) or True
    ctx.case([mod, p], nontrivial=nontrivial)
    sub = ""
    if mod == "yajilin":
        flat = [c for r in p for c in r]
        if any(c == "??" for c in flat):
            sub = ":direction-less-clue"
        elif any(c not in ("..", "??") and int(c[1:]) >= 16 for c in flat):
            sub = ":number>=16"
    j = Judge(ctx, mod, p, h, w, sub)
    ok, url = j.call("encode", enc, p)
    if not ok:
        return
    ok, back = j.call("decode", dec, url)
    if ok:
        j.same("roundtrip", back, p, url)
    rest = j.head(url, name, h, w)
    if rest is not None:
        try:
            cells = indep("/".join(rest), h * w)
            got = [cells[y * w:(y + 1) * w] for y in range(h)]
            j.same("pzpr", got, p, url)
        except pzpr.Bad as e:
            j.fail("pzpr", f"independent decoder rejects the body: {e}", url=url)
    if legacy is not None and rest is not None:
        ok, txt = j.call("legacy", legacy, p)
        if ok:
            j.same("legacy", txt, "/".join(rest), url)


def yajilin_gen(rng, h, w):
    out = []
    d = rng.choice([0.0, 0.15, 0.4, 1.0])
    for y in range(h):
        row = []
        for x in range(w):
            if rng.random() < d:
                k = rng.random()
                if k < 0.12:
                    row.append("??")
                else:
                    n = rng.choice([0, 1, 2, 3, 9, 10, 15, 16, 17, 20]) if rng.random() < 0.5 else rng.randint(0, 12)
                    row.append(rng.choice("^v<>") + str(n))
            else:
                row.append("..")
        out.append(row)
    return out


def yajilin_indep(body, n):
    cells, i = pzpr.arrow_number16(body, n)
    if i != len(body):
        raise pzpr.Bad("trailing characters")
    out = []
    for c in cells:
        if c is None:
            out.append("..")
        elif c[0] == 0 or c[1] is None:
            out.append("??")
        else:
            out.append("^v<>"[c[0] - 1] + str(c[1]))
    return out


def n16(blank, question):
    def f(body, n):
        cells, i = pzpr.number16(body, n, blank=blank, question=question)
        if i != len(body):
            raise pzpr.Bad("trailing characters")
        return cells
    return f


def whole(fn, **kw):
    def f(body, n):
        cells, i = fn(body, n, **kw)
        if i != len(body):
            raise pzpr.Bad("trailing characters")
        return cells
    return f


def rooms_case(ctx, rng, mod):
    h, w = shape(rng, 1, 10)
    rooms = K.random_rooms(h, w, rng)
    ctx.case([mod, h, w, K.canon_rooms(rooms)], nontrivial=len(rooms) > 1)
    j = Judge(ctx, mod, rooms, h, w)
    m = {"lits": lits, "norinori": norinori}[mod]
    enc = getattr(m, "serialize_" + mod)
    dec = getattr(m, "deserialize_" + mod)
    ok, url = j.call("encode", enc, h, w, rooms)
    if not ok:
        return
    ok, back = j.call("decode", dec, url)
    if ok:
        if back is None or len(back) != 3:
            j.fail("roundtrip", f"decode returned {back!r}", url=url)
        else:
            j.same("roundtrip", (back[0], back[1], K.canon_rooms(back[2])), (h, w, K.canon_rooms(rooms)), url)
    rest = j.head(url, mod, h, w)
    if rest is not None:
        body = "/".join(rest)
        try:
            rid, i, _, _ = pzpr.border(body, w, h)
            if i != len(body):
                raise pzpr.Bad("trailing characters")
            j.same("pzpr", K.canon_rooms(pzpr.rooms_of(rid)), K.canon_rooms(rooms), url)
        except pzpr.Bad as e:
            j.fail("pzpr", f"independent decoder rejects the body: {e}", url=url)
        bid = util.blocks_to_block_id(h, w, rooms)
        ok, txt = j.call("legacy", util.encode_grid_segmentation, h, w, bid)
        if ok:
            j.same("legacy", txt, body, url)


def heyawake_case(ctx, rng):
    h, w = shape(rng, 1, 10)
    rects = None
    if rng.random() < 0.3:
        # rectangular rooms, also encoded through the module's rectangular problem form [(y0, x0, y1, x1, clue)] in arbitrary order
        rects = [(0, 0, h, w)]
        for _ in range(rng.randint(0, 6)):
            k = rng.randrange(len(rects))
            y0, x0, y1, x1 = rects[k]
            if (y1 - y0 > 1) and (x1 - x0 == 1 or rng.random() < 0.5):
                c = rng.randint(y0 + 1, y1 - 1)
                rects[k:k + 1] = [(y0, x0, c, x1), (c, x0, y1, x1)]
            elif x1 - x0 > 1:
                c = rng.randint(x0 + 1, x1 - 1)
                rects[k:k + 1] = [(y0, x0, y1, c), (y0, c, y1, x1)]
        rng.shuffle(rects)
        rooms = [[(y, x) for y in range(y0, y1) for x in range(x0, x1)] for y0, x0, y1, x1 in rects]
    else:
        rooms = K.random_rooms(h, w, rng)
    clues = [rng.choice([-1, -1, 0, 1, 2, 5, 15, 16, 255, 256, 300]) for _ in rooms]
    ctx.case(["heyawake", h, w, sorted(zip(K.canon_rooms(rooms), clues))], nontrivial=len(rooms) > 1)
    j = Judge(ctx, "heyawake", (rooms, clues), h, w)
    ok, url = j.call("encode", heyawake.serialize_heyawake, h, w, rooms, clues)
    if not ok:
        return
    want = sorted((sorted(r), c) for r, c in zip(rooms, clues))
    if rects is not None:
        ok2, url2 = j.call("encode", heyawake.serialize_heyawake, h, w, [r + (c,) for r, c in zip(rects, clues)])
        ctx.count("c16.heyawake_rect_form")
        if ok2:
            j.same("rect-form", url2, url, url)  # both entry points describe the same problem: same text
    ok, back = j.call("decode", heyawake.deserialize_heyawake, url)
    if ok:
        if back is None or len(back) != 3:
            j.fail("roundtrip", f"decode returned {back!r}", url=url)
        else:
            bh, bw, (brooms, bclues) = back
            j.same("roundtrip", (bh, bw, len(brooms), len(bclues), sorted((sorted(r), c) for r, c in zip(brooms, bclues))),
                   (h, w, len(rooms), len(clues), want), url)
    rest = j.head(url, "heyawake", h, w)
    if rest is not None:
        body = "/".join(rest)
        try:
            rid, i, _, _ = pzpr.border(body, w, h)
            rl = pzpr.rooms_of(rid)
            vals, i2 = pzpr.number16(body, len(rl), pos=i, blank=-1)
            if i2 != len(body):
                raise pzpr.Bad("trailing characters")
            j.same("pzpr", sorted((sorted(r), c) for r, c in zip(rl, vals)), want, url)
        except pzpr.Bad as e:
            j.fail("pzpr", f"independent decoder rejects the body: {e}", url=url)


def compass_case(ctx, rng):
    h, w = shape(rng, 1, 9)
    cells = [(y, x) for y in range(h) for x in range(w)]
    k = rng.randint(0, min(len(cells), 5))
    pos = []
    for (y, x) in sorted(rng.sample(cells, k)):
        vals = [rng.choice([-1, -1, 0, 1, 2, 9, 15, 16, 30, 255]) for _ in range(4)]
        pos.append((y, x, vals[0], vals[1], vals[2], vals[3]))  # y, x, up, left, down, right
    ctx.case(["compass", h, w, pos], nontrivial=len(pos) > 0)
    sub = ":nonsquare" if h != w else ""
    j = Judge(ctx, "compass", pos, h, w, sub)
    ok, url = j.call("encode", compass.to_puzz_link_url, h, w, pos)
    if not ok:
        return
    ok, back = j.call("decode", compass.parse_puzz_link_url, url)
    if ok:
        j.same("roundtrip", (back[0], back[1], sorted(back[2])) if back and len(back) == 3 else back, (h, w, sorted(pos)), url)
    rest = j.head(url, "compass", h, w)
    if rest is not None:
        try:
            dec = pzpr.compass("/".join(rest), w, h)
            got = sorted((y, x, -1 if u is None else u, -1 if l is None else l, -1 if d is None else d, -1 if r is None else r)
                         for (y, x, u, d, l, r) in dec)
            j.same("pzpr", got, sorted(pos), url)
        except pzpr.Bad as e:
            j.fail("pzpr", f"independent decoder rejects the body: {e}", url=url)


def star_battle_case(ctx, rng):
    n = rng.randint(1, 10)
    k = rng.randint(1, 3)
    ids = K.random_partition_ids(n, n, rng, nrooms=rng.randint(1, n))
    ctx.case(["star_battle", n, k, ids], nontrivial=n > 1)
    j = Judge(ctx, "star_battle", ids, n, n)
    ok, url = j.call("encode", star_battle.problem_to_pzv_url, n, k, ids)
    if not ok:
        return
    rest = j.head(url, "starbattle", n, n)
    if rest is not None:
        try:
            if len(rest) != 2 or int(rest[0]) != k:
                raise pzpr.Bad(f"extra field {rest[:1]} != star count {k}")
            rid, i, _, _ = pzpr.border(rest[1], n, n)
            if i != len(rest[1]):
                raise pzpr.Bad("trailing characters")
            ctx.count("c16.pzpr_checked")
            if not ids_equal_partition(rid, ids):
                j.fail("pzpr", "independent decoder reads a different partition", url=url)
        except (pzpr.Bad, ValueError) as e:
            j.fail("pzpr", f"independent decoder rejects the URL: {e}", url=url)
        rooms = pzpr.rooms_of(ids)
        # combinator-based Rooms codec must emit the same text as the legacy segmentation encoder
        try:
            txt = PS.serialize_problem(PS.Rooms(), rooms, height=n, width=n)
            j.same("legacy", rest[1], txt, url)
        except Exception as e:
            j.fail(f"legacy-raises:{type(e).__name__}", f"Rooms codec raised {e!r}")


def aquarium_case(ctx, rng):
    h, w = shape(rng, 1, 9)
    rooms = K.random_rooms(h, w, rng)
    crow = [rng.choice([-1, -1, 0, 1, w, 15, 16, 20]) for _ in range(h)]
    ccol = [rng.choice([-1, -1, 0, 1, h, 15, 16, 20]) for _ in range(w)]
    ctx.case(["aquarium", h, w, K.canon_rooms(rooms), crow, ccol], nontrivial=True)
    j = Judge(ctx, "aquarium", (rooms, crow, ccol), h, w)
    ok, url = j.call("encode", aquarium.problem_to_url, h, w, rooms, crow, ccol)
    if not ok:
        return
    rest = j.head(url, "aquarium", h, w)
    if rest is not None:
        try:
            if len(rest) != 2:
                raise pzpr.Bad("expected border/clues")
            rid, i, _, _ = pzpr.border(rest[0], w, h)
            if i != len(rest[0]):
                raise pzpr.Bad("trailing characters in border")
            vals, i2 = pzpr.number16(rest[1], w + h, blank=-1)
            if i2 != len(rest[1]):
                raise pzpr.Bad("trailing characters in clues")
            j.same("pzpr", (K.canon_rooms(pzpr.rooms_of(rid)), vals[:w], vals[w:]), (K.canon_rooms(rooms), ccol, crow), url)
        except pzpr.Bad as e:
            j.fail("pzpr", f"independent decoder rejects the URL: {e}", url=url)
        try:
            t1 = PS.serialize_problem(PS.Rooms(), rooms, height=h, width=w)
            t2 = PS.serialize_problem(PS.Seq(PS.OneOf(PS.Spaces(-1, "g"), PS.HexInt()), w + h), ccol + crow, height=h, width=w)
            j.same("legacy", (rest[0], rest[1]), (t1, t2), url)
        except Exception as e:
            j.fail(f"legacy-raises:{type(e).__name__}", f"combinator codec raised {e!r}")


def sudoku_gen(rng, h, w):
    raise NotImplementedError


def recorded_urls(ctx):
    """URLs recorded in the repository (bench/generator.py expectations, tests, module comments): the real decoder and the
    independent pzpr decoder must read the same problem from each, and re-encoding must reproduce the URL."""
    import glob
    import os
    import re

    repo = os.environ.get("VERIF_REPO", "/repo")
    urls = set()
    for f in [os.path.join(repo, "bench", "generator.py")] + glob.glob(os.path.join(repo, "tests", "**", "*.py"), recursive=True) \
            + glob.glob(os.path.join(repo, "cspuz", "puzzle", "*.py")):
        try:
            txt = open(f).read()
        except OSError:
            continue
        urls.update(re.findall(r"https?://[A-Za-z0-9./_-]+/p(?:\.html)?\?[A-Za-z0-9/.+_-]+", txt))
    table = {"masyu": (masyu.deserialize_masyu, masyu.serialize_masyu, whole(pzpr.circle)),
             "mashu": (masyu.deserialize_masyu, None, whole(pzpr.circle)),
             "nurimisaki": (nurimisaki.deserialize_nurimisaki, nurimisaki.serialize_nurimisaki, n16(-1, 0)),
             "sudoku": (sudoku.deserialize_sudoku, sudoku.serialize_sudoku, n16(0, "?")),
             "nurikabe": (nurikabe.deserialize_nurikabe, nurikabe.serialize_nurikabe, n16(0, -1)),
             "slither": (slitherlink.deserialize_slitherlink, slitherlink.serialize_slitherlink, whole(pzpr.four_cell, blank=-1)),
             "yajilin": (yajilin.deserialize_yajilin, yajilin.serialize_yajilin, yajilin_indep)}
    for url in sorted(urls):
        try:
            name, cols, rows, rest = pzpr.split_url(url)
        except Exception:
            continue
        if name not in table:
            continue
        dec, enc, indep = table[name]
        ctx.count("c16.recorded_urls")
        ctx.case(["recorded", url], nontrivial=True)
        j = Judge(ctx, "recorded-" + name, url, rows, cols)
        ok, prob = j.call("decode", dec, url)
        if not ok or prob is None:
            if ok:
                j.fail("recorded-url-rejected", "a URL recorded in the repository is not decodable", url=url)
            continue
        try:
            cells = indep("/".join(rest), rows * cols)
            j.same("pzpr", [cells[y * cols:(y + 1) * cols] for y in range(rows)], prob, url)
        except pzpr.Bad as e:
            j.fail("pzpr", f"independent decoder rejects a recorded URL: {e}", url=url)
        if enc is not None and url.startswith("https://puzz.link/p?"):
            ok, url2 = j.call("encode", enc, prob)
            if ok:
                j.same("roundtrip", url2, url, url)


def run(ctx):
    rng = ctx.rng
    if ctx.shard == 0:
        recorded_urls(ctx)
    n = 500 if ctx.tier == "quick" else 8000
    m2 = util.map2d
    for t in range(n):
        with ctx.guard(60):
            grid_codec(ctx, rng, "nurikabe", "nurikabe", lambda r, h, w: num_grid(r, h, w, 0, [-1]), nurikabe.serialize_nurikabe,
                       nurikabe.deserialize_nurikabe, n16(0, -1),
                       legacy=lambda p: util.encode_array(m2(lambda v: "." if v == -1 else v, p), empty=0))
            grid_codec(ctx, rng, "nurimisaki", "nurimisaki", lambda r, h, w: num_grid(r, h, w, -1, [0]), nurimisaki.serialize_nurimisaki,
                       nurimisaki.deserialize_nurimisaki, n16(-1, 0),
                       legacy=lambda p: util.encode_array(m2(lambda v: "." if v == 0 else v, p), empty=-1))
            grid_codec(ctx, rng, "masyu", "masyu", lambda r, h, w: [[r.choice([0, 0, 1, 2]) for _ in range(w)] for _ in range(h)],
                       masyu.serialize_masyu, masyu.deserialize_masyu, whole(pzpr.circle))
            grid_codec(ctx, rng, "slitherlink", "slither",
                       lambda r, h, w: [[r.choice([-1, -1, -1, 0, 1, 2, 3, 4]) if r.random() < 0.8 else -1 for _ in range(w)] for _ in range(h)],
                       slitherlink.serialize_slitherlink, slitherlink.deserialize_slitherlink, whole(pzpr.four_cell, blank=-1))
            grid_codec(ctx, rng, "yajilin", "yajilin", yajilin_gen, yajilin.serialize_yajilin, yajilin.deserialize_yajilin, yajilin_indep)
            # sudoku: square boards n^2 x n^2
            nn = rng.choice([2, 3, 4])
            sz = nn * nn
            dens = rng.choice([0.0, 0.2, 0.5, 1.0])
            sp = [[rng.randint(1, sz) if rng.random() < dens else 0 for _ in range(sz)] for _ in range(sz)]
            ctx.case(["sudoku", sp], nontrivial=True)
            j = Judge(ctx, "sudoku", sp, sz, sz)
            ok, url = j.call("encode", sudoku.serialize_sudoku, sp)
            if ok:
                ok, back = j.call("decode", sudoku.deserialize_sudoku, url)
                if ok:
                    j.same("roundtrip", back, sp, url)
                rest = j.head(url, "sudoku", sz, sz)
                if rest is not None:
                    try:
                        cells = n16(0, "?")("/".join(rest), sz * sz)
                        j.same("pzpr", [cells[y * sz:(y + 1) * sz] for y in range(sz)], sp, url)
                    except pzpr.Bad as e:
                        j.fail("pzpr", f"independent decoder rejects the body: {e}", url=url)
                    ok, txt = j.call("legacy", util.encode_array, sp, "g", 0)
                    if ok:
                        j.same("legacy", txt, "/".join(rest), url)
            rooms_case(ctx, rng, "lits")
            rooms_case(ctx, rng, "norinori")
            heyawake_case(ctx, rng)
            compass_case(ctx, rng)
            star_battle_case(ctx, rng)
            aquarium_case(ctx, rng)
    ctx.sample({"module": "nurikabe", "url": nurikabe.serialize_nurikabe([[0, 2, -1], [16, 0, 0]]), "problem": [[0, 2, -1], [16, 0, 0]]})
    ctx.sample({"module": "compass", "url": compass.to_puzz_link_url(2, 3, [(0, 1, 1, -1, 2, 16)])})


def replay(w, ctx):
    print(json.dumps(w)[:2000])
    print("problems are regenerated from the seed; the witness holds the module, size, problem and URL")
