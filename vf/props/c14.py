"""C14  BoolGridFrame accessors are consistent with the lattice geometry.

Deciding method: M-FRAME (runtime monitor on the real accessors and on the
graph inference used by the loop constraints) compares every call with the
lattice model; workload = all frames up to 4x4 (thorough 7x7) x all coordinates
inside and outside, both call styles, plus frames created by the loop
constraints themselves."""
import cspuz
from cspuz import graph
from cspuz.grid_frame import BoolGridFrame, BoolInnerGridFrame

from ..monitors import mframe
from ..refs import lattice as L

RULE = ("all frames 0 <= h, w <= 4 (thorough 7) x all doubled coordinates in -3..2*dim+3 for __getitem__, all cell / point coordinates in "
        "-2..dim+2 for cell_neighbors / vertex_neighbors in both call styles ((y, x) and ((y, x),)), all_edges, iteration, dual, dual of dual, "
        "inner-frame round trip, graph inference (_from_grid_frame on the frame and on dual-of-inner frames), frames with caller-supplied "
        "arrays; one evaluation = one accessor call judged; distinct by (frame size, accessor, coordinate)")
ASSUMPTIONS = ["the documented arrays horizontal[y, x] / vertical[y, x] (shapes (h+1, w) and (h, w+1)) define which variable sits on which segment"]
REQUIRED = ["mframe.getitem", "mframe.getitem_outside", "mframe.cell_neighbors", "mframe.vertex_neighbors", "mframe.neighbors_outside",
            "mframe.all_edges", "mframe.iter", "mframe.dual", "mframe.inner_dual", "mframe.from_grid_frame", "c14.zero_sized", "c14.loop_constraint_frames", "c14.supplied.horizontal",
            "c14.supplied.vertical", "c14.supplied.horizontal+vertical"]


def plan(tier):
    return {"shards": 8}


def exercise(ctx, st, s, h, w, supplied=False):
    if supplied:
        # supplied: True = both arrays, "h" / "v" = only one of them (the other is the frame's own)
        hor = s.bool_array((h + 1, w)) if supplied in (True, "h") else None
        ver = s.bool_array((h, w + 1)) if supplied in (True, "v") else None
        kw = {k: v for k, v in (("horizontal", hor), ("vertical", ver)) if v is not None}
        fr = BoolGridFrame(s, h, w, **kw)
        if (hor is not None and fr.horizontal is not hor) or (ver is not None and fr.vertical is not ver):
            ctx.violation("frame:supplied-arrays-ignored", f"constructor did not keep the supplied arrays ({sorted(kw)})", {"frame": [h, w]})
        ctx.count("c14.supplied." + "+".join(sorted(kw)))
        # the same for an inner frame of (h+1) x (w+1) cells
        ih = s.bool_array((h, w + 1)) if supplied in (True, "h") else None
        iv = s.bool_array((h + 1, w)) if supplied in (True, "v") else None
        ikw = {k: v for k, v in (("horizontal", ih), ("vertical", iv)) if v is not None}
        inn = BoolInnerGridFrame(s, h + 1, w + 1, **ikw)
        if (ih is not None and inn.horizontal is not ih) or (iv is not None and inn.vertical is not iv):
            ctx.violation("frame:inner-supplied-arrays-ignored", f"inner-frame constructor did not keep the supplied arrays ({sorted(ikw)})",
                          {"inner": [h + 1, w + 1]})
        else:
            dd = inn.dual()
            if dd.horizontal is not inn.vertical or dd.vertical is not inn.horizontal:
                ctx.violation("frame:inner-dual-arrays", "dual() of an inner frame does not carry the frame's arrays", {"inner": [h + 1, w + 1]})
    else:
        fr = BoolGridFrame(s, h, w)
    if fr.horizontal.shape != (h + 1, w) or fr.vertical.shape != (h, w + 1) or fr.height != h or fr.width != w:
        ctx.violation("frame:array-shapes", f"horizontal {fr.horizontal.shape} / vertical {fr.vertical.shape} for a {h}x{w} frame", {"frame": [h, w]})
        return
    if h == 0 or w == 0:
        ctx.count("c14.zero_sized")

    def call(tag, f, *a):
        try:
            f(*a)
        except IndexError:
            pass
        except Exception as e:
            ctx.violation(f"frame:{tag}-raises:{type(e).__name__}", f"{tag}{a} raised {e!r}", {"frame": [h, w], "args": [repr(x) for x in a]})
        ctx.case([h, w, supplied, tag, [repr(x) for x in a]], nontrivial=True)

    def must(tag, f, *a):
        """a call on a valid frame: any exception is a violation"""
        try:
            return f(*a)
        except Exception as e:
            ctx.violation(f"frame:{tag}-raises:{type(e).__name__}", f"{tag} on a valid {h}x{w} frame raised {e!r}", {"frame": [h, w]})
            return None

    for Y in range(-3, 2 * h + 4):
        for X in range(-3, 2 * w + 4):
            call("getitem", fr.__getitem__, (Y, X))
    for y in range(-2, h + 3):
        for x in range(-2, w + 3):
            call("cell_neighbors", fr.cell_neighbors, y, x)
            call("cell_neighbors", fr.cell_neighbors, (y, x))
            call("vertex_neighbors", fr.vertex_neighbors, y, x)
            call("vertex_neighbors", fr.vertex_neighbors, (y, x))
    must("all_edges", fr.all_edges)
    must("iter", lambda: list(fr))
    d = must("dual", fr.dual)
    if d is not None:
        must("inner-iter", lambda: list(d))
        must("inner-dual", d.dual)
    must("inferred-graph", graph._from_grid_frame, fr)
    for tag in ("all_edges", "iter", "dual", "inferred-graph"):
        ctx.case([h, w, supplied, tag], nontrivial=True)
    # an inner frame created on its own (cells h+1 x w+1), its dual and the graph inferred from it (as the borders constraint does)
    inner = BoolInnerGridFrame(s, h + 1, w + 1)
    if inner.horizontal.shape != (h, w + 1) or inner.vertical.shape != (h + 1, w):
        ctx.violation("frame:inner-array-shapes", f"inner horizontal {inner.horizontal.shape} / vertical {inner.vertical.shape}", {"inner": [h + 1, w + 1]})
    else:
        must("inferred-graph", lambda: graph._from_grid_frame(inner.dual()))
        ctx.case([h, w, "inner"], nontrivial=True)


def run(ctx):
    st = mframe.install(ctx)
    thorough = ctx.tier == "thorough"
    lim = 7 if thorough else 4
    s = cspuz.Solver()
    k = 0
    for h in range(0, lim + 1):
        for w in range(0, lim + 1):
            for supplied in (False, True, "h", "v"):
                k += 1
                if ctx.mine(k):
                    exercise(ctx, st, s, h, w, supplied)
    ctx.exhaustive[f"all frames 0..{lim} x 0..{lim}, all coordinates of the stated box"] = True
    for k, (h, w) in enumerate([(5, 9), (9, 5), (8, 8), (1, 12), (12, 1), (6, 11), (17, 3)]):
        if ctx.mine(k):
            exercise(ctx, st, s, h, w, supplied=bool(k % 2))
    # frames used by the loop constraints themselves (monitor stays on while the real functions run)
    if ctx.shard == 0:
        for h, w in [(1, 1), (2, 3), (3, 2), (0, 2), (0, 0), (0, 1), (1, 0)]:
            s2 = cspuz.Solver()
            fr = BoolGridFrame(s2, h, w)
            try:
                graph.active_edges_single_cycle(s2, fr)
                fr.single_loop()
                graph.active_edges_connected_crossable(s2, fr)
                inner = BoolInnerGridFrame(s2, h + 1, w + 1)
                graph.division_connected_variable_groups_with_borders(s2, group_size=s2.int_array((h + 1, w + 1), 1, 4), is_border=inner)
            except Exception as e:
                ctx.violation(f"frame:loop-constraint-raises:{type(e).__name__}", f"a loop constraint on a {h}x{w} frame raised {e!r}", {"frame": [h, w]})
            ctx.count("c14.loop_constraint_frames")
            ctx.case(["loop-constraints", h, w], nontrivial=True)
    # frames come and go: an object created where a dead frame lived (same id()) is a different frame - whatever was remembered
    # about the dead one (inferred graph, neighbour tables) must not be served for it
    rng = ctx.rng
    s3 = cspuz.Solver()
    for k in range(120 if not thorough else 2000):
        h, w = rng.randint(0, 4), rng.randint(0, 4)
        fr = BoolGridFrame(s3, h, w)
        try:
            graph._from_grid_frame(fr)
            fr.cell_neighbors(0, 0) if h and w else None
            list(fr)
        except Exception as e:
            ctx.violation(f"frame:accessor-raises:{type(e).__name__}", f"accessor on a valid {h}x{w} frame raised {e!r}", {"frame": [h, w]})
        fid = id(fr)
        del fr
        h2, w2 = rng.randint(0, 4), rng.randint(0, 4)
        fr2 = BoolGridFrame(s3, h2, w2)
        if id(fr2) == fid:
            ctx.count("c14.frame_created_at_the_id_of_a_dead_frame")
        try:
            graph._from_grid_frame(fr2)  # judged by M-FRAME against the lattice of fr2
            fr2.vertex_neighbors(0, 0)
            fr2.all_edges()
        except Exception as e:
            ctx.violation(f"frame:accessor-raises:{type(e).__name__}", f"accessor on a valid {h2}x{w2} frame raised {e!r}", {"frame": [h2, w2]})
        ctx.case(["id-reuse", h, w, h2, w2, k], nontrivial=True)
        del fr2
    from .c13 import realistic_stage

    realistic_stage(ctx, thorough)
    ctx.sample({"frame": [2, 3], "item": [1, 4], "geometry": "vertical segment (0,2)-(1,2)"})
    mframe.uninstall()


def replay(w, ctx):
    st = mframe.install(ctx)
    s = cspuz.Solver()
    h, wd = w.get("frame", [2, 2])
    exercise(ctx, st, s, h, wd)
