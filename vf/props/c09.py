"""C09  active_edges_acyclic admits exactly the forests.

Deciding method: real constraint function executed on every edge subset of
small multigraphs; Solver verdict (under M-SOLVE) vs union-find forest test."""
import itertools

from cspuz import graph
from cspuz.array import BoolArray1D

from ..monitors import msolve
from ..refs import graphdefs as G
from ..workloads import graphdrv as D

RULE = ("all loop-free multigraphs (edge multiplicity <= 2, <= 7 edges) on <= 4 vertices up to isomorphism x all edge subsets (pointwise), "
        "all labelled simple graphs on 4 (quick) / 5 (thorough) vertices by accepted-set enumeration (vertex numbering matters to the "
        "encoding's i<j side condition), random multigraphs n <= 9; edge flags as variables, negated variables, compound expressions, constants, "
        "BoolArray1D; one evaluation = one solve vs the definition; distinct by (graph, subset, form)")
ASSUMPTIONS = ["z3 decides the posted aux-variable program correctly (SAT answers re-validated by M-SOLVE)"]
REQUIRED = ["acyc.pointwise", "acyc.oracle.valid", "acyc.oracle.invalid", "acyc.parallel_edges", "acyc.accepted_set_solves",
            "acyc.form.expr", "acyc.random", "msolve.model_checked", "acyc.long_paths", "acyc.deep_spanning_trees", "acyc.line_graph_objects"]


def plan(tier):
    return {"shards": 16}


def run(ctx):
    rng = ctx.rng
    msolve.install(ctx, owner="C01", brute_cap=256)
    thorough = ctx.tier == "thorough"
    work = []
    for n in (1, 2, 3, 4):
        for edges in G.graphs_up_to_iso(n, 2):
            if len(edges) <= 7:
                work.append(("pw", n, [tuple(e) for e in edges]))
    for n in ((4, 5) if thorough else (4,)):
        for edges in G.all_graphs(n):
            work.append(("as", n, edges))
    if thorough:
        for edges in G.all_graphs(4, 2):
            if len(edges) <= 8:
                work.append(("as", 4, edges))
    ctx.exhaustive["multigraphs <=4 vertices, mult<=2, <=7 edges, up to iso x all subsets"] = True
    for k, (mode, n, edges) in enumerate(work):
        if not ctx.mine(k):
            continue
        m = len(edges)
        # random orientation / order of the edge list: the encoding must not depend on it
        e2 = [(v, u) if rng.random() < 0.5 else (u, v) for u, v in edges]
        rng.shuffle(e2)
        g = D.mk_graph(n, e2)
        desc = {"n": n, "edges": [list(e) for e in e2]}
        ora = lambda p, n=n, e2=e2: G.is_forest(n, e2, p)  # noqa
        if len(set(map(frozenset, e2))) < m:
            ctx.count("acyc.parallel_edges")
        with ctx.guard(600 if not thorough else 2400):
            if mode == "pw":
                arr = (k % 2 == 0)

                def post(s, act, g=g, arr=arr):
                    graph.active_edges_acyclic(s, BoolArray1D(act) if arr else act, g)

                forms = ("var", "neg", "expr", "const", "mixed") if m <= 4 else ("var", "mixed")
                D.pointwise(ctx, "acyc", m, post, ora, D.all_patterns(m), forms=forms, desc=desc, rng=rng)
            else:
                oset = {p for p in D.all_patterns(m) if ora(p)}
                D.accepted_set(ctx, "acyc", m, lambda s, vs, g=g: graph.active_edges_acyclic(s, vs, g), oset, desc=desc)
    for k in range(10 if not thorough else 150):
        n = rng.randint(5, 9)
        edges = []
        for _ in range(rng.randint(n - 1, n + 4)):
            u, v = rng.sample(range(n), 2)
            edges.append((u, v))
        g = D.mk_graph(n, edges)
        m = len(edges)
        pats = []
        for _ in range(8):
            # a random spanning-forest-ish subset, plus one extra edge (often closes a cycle), plus random
            uf = G.UF(n)
            p = [0] * m
            for i in rng.sample(range(m), m):
                if rng.random() < 0.7 and uf.union(*edges[i]):
                    p[i] = 1
            pats.append(tuple(p))
            q = list(p)
            q[rng.randrange(m)] = 1
            pats.append(tuple(q))
            pats.append(tuple(rng.randint(0, 1) for _ in range(m)))
        with ctx.guard(300):
            D.pointwise(ctx, "acyc", m, lambda s, act, g=g: graph.active_edges_acyclic(s, act, g),
                        lambda p, n=n, edges=edges: G.is_forest(n, edges, p), pats, forms=("var",),
                        desc={"n": n, "edges": [list(e) for e in edges]}, rng=rng)
        ctx.count("acyc.random")
        if k == 0:
            ctx.sample({"n": n, "edges": edges, "patterns": pats[:3]})
    # long paths and deep trees: along a path the ranks of the encoding form a V, so half the path length must fit the rank range
    for k in range(2 if not thorough else 30):
        n = rng.randint(16, 30)
        order = list(range(n))
        rng.shuffle(order)
        edges = [(order[i], order[i + 1]) for i in range(n - 1)] + [(order[-1], order[0])] + [tuple(rng.sample(range(n), 2)) for _ in range(2)]
        edges = D.scramble(rng, edges)
        g = D.mk_graph(n, edges)
        on = {frozenset((order[i], order[i + 1])) for i in range(n - 1)}
        path = tuple(1 if frozenset(e) in on else 0 for e in edges)
        closed = tuple(1 if (frozenset(e) in on or frozenset(e) == frozenset((order[-1], order[0]))) else 0 for e in edges)
        with ctx.guard(300):
            D.pointwise(ctx, "acyc", len(edges), lambda s, act, g=g: graph.active_edges_acyclic(s, act, g),
                        lambda p, n=n, edges=edges: G.is_forest(n, edges, p), [path, closed, tuple([1] * len(edges))], forms=("var",),
                        desc={"n": n, "edges": [list(e) for e in edges]}, rng=rng)
        ctx.count("acyc.long_paths")
    for k in range(2 if not thorough else 30):
        h, w = rng.choice([(4, 5), (5, 5), (5, 6), (6, 6)])
        n, edges = h * w, D.scramble(rng, G.grid_edges(h, w))
        g = D.mk_graph(n, edges)
        # a snake-like spanning tree (DFS order) and the same plus one more edge
        adj = G.adjacency(n, edges)
        seen, tree, st = {0}, set(), [0]
        while st:
            v = st[-1]
            nb = [u for u in adj[v] if u not in seen]
            if not nb:
                st.pop()
                continue
            u = rng.choice(nb)
            seen.add(u)
            tree.add(frozenset((v, u)))
            st.append(u)
        tp = tuple(1 if frozenset(e) in tree else 0 for e in edges)
        plus = list(tp)
        plus[tp.index(0)] = 1
        with ctx.guard(300):
            D.pointwise(ctx, "acyc", len(edges), lambda s, act, g=g: graph.active_edges_acyclic(s, act, g),
                        lambda p, n=n, edges=edges: G.is_forest(n, edges, p), [tp, tuple(plus)], forms=("var",),
                        desc={"grid_graph": [h, w], "n": n, "edges": [list(e) for e in edges]}, rng=rng)
        ctx.count("acyc.deep_spanning_trees")
    # Graph objects produced by Graph.line_graph() (loop-free; all edge subsets)
    for k in range(4 if not thorough else 60):
        r = D.line_graph_object(rng, nmax=4)
        if r is None:
            ctx.count("acyc.line_graph_object_disagrees")
            continue
        g, n, edges = r
        m = len(edges)
        if m == 0 or m > 8:
            continue
        with ctx.guard(300):
            D.pointwise(ctx, "acyc", m, lambda s, act, g=g: graph.active_edges_acyclic(s, act, g),
                        lambda p, n=n, edges=edges: G.is_forest(n, edges, p), D.all_patterns(m) if m <= 5 else rng.sample(list(D.all_patterns(m)), 32),
                        forms=("var",), desc={"n": n, "edges": [list(e) for e in edges], "from_line_graph": True}, rng=rng)
        ctx.count("acyc.line_graph_objects")
    msolve.uninstall()


def replay(w, ctx):
    msolve.install(ctx, owner="C01", brute_cap=256)
    d = w["desc"]
    n, edges = d["n"], [tuple(e) for e in d["edges"]]
    g = D.mk_graph(n, edges)
    pats = [tuple(w["pattern"])] if w.get("pattern") else D.all_patterns(len(edges))
    D.pointwise(ctx, "acyc", len(edges), lambda s, act: graph.active_edges_acyclic(s, act, g),
                lambda p: G.is_forest(n, edges, p), pats, forms=(w.get("form", "var"),), desc=d, rng=ctx.rng)
