"""C10  crossable loop/path constraint admits exactly single self-crossing trails.

Deciding method: the real active_edges_connected_crossable is executed on
BoolGridFrames with the segment subset fixed and both returned arrays as answer
keys under Solver.solve(); oracle = degree rule per lattice point + segment
union-find (straight pairs pass through each other at 4-way points) — not the
vertex-splitting construction the code uses."""
import cspuz
from cspuz import graph

from ..monitors import msolve, mwire, standin
from ..refs import graphdefs as G
from ..refs import lattice as L
from ..workloads import graphdrv as D

RULE = ("frames 1x1..2x2 (+1x3, 3x1, 0xN) x all segment subsets x single_cycle on/off (aux via z3), sampled subsets for the primitive "
        "route through the stand-in; 2x3 / 3x2 / 3x3 frames: random subsets biased to near-valid trails (valid trails grown by random "
        "walks incl. crossings, then add/drop/shift one segment) in quick, 2x3 exhaustive by accepted-set in thorough; "
        "one evaluation = one solve() compared with the definition incl. both returned arrays; distinct by (frame, subset, flags)")
ASSUMPTIONS = ["z3 decides the posted program correctly (SAT re-validated by M-SOLVE)",
               "primitive route: the auxiliary split-vertex graph goes over the wire; stand-in evaluates connectivity on it"]
REQUIRED = ["cross.cases", "cross.want.valid", "cross.want.invalid", "cross.arrays_checked", "cross.with_crossing_valid", "cross.single_cycle",
            "cross.primitive", "cross.deg3_patterns", "cross.two_strands_at_crossing"]


def plan(tier):
    return {"shards": 16}


def split(h, w, pattern):
    segs = L.segments(h, w)
    hor = [[0] * w for _ in range(h + 1)]
    ver = [[0] * (w + 1) for _ in range(h)]
    for sg, p in zip(segs, pattern):
        k, y, x = sg
        if p:
            (hor if k == "h" else ver)[y][x] = 1
    return hor, ver


def one(ctx, h, w, pattern, single_cycle, prim, be):
    segs = L.segments(h, w)
    s = cspuz.Solver()
    side = ctx.rng.choice(["own", "own", "own", "h", "v", "both"])
    hor = s.bool_array((h + 1, w)) if side in ("h", "both") else None
    ver = s.bool_array((h, w + 1)) if side in ("v", "both") else None
    kw = {k: v for k, v in (("horizontal", hor), ("vertical", ver)) if v is not None}
    fr = cspuz.BoolGridFrame(s, h, w, **kw)  # the frame over its own arrays or over arrays the caller supplies (one or both)
    cvar = lambda sg: (hor[sg[1], sg[2]] if (sg[0] == "h" and hor is not None) else ver[sg[1], sg[2]] if (sg[0] == "v" and ver is not None)  # noqa: E731
                       else L.frame_var(fr, sg))
    ctx.count("cross.frame_arrays." + side)
    desc = {"frame": [h, w], "single_cycle": single_cycle, "primitive": prim, "frame_arrays": side}
    ctx.current_case = {"tag": "cross", "desc": desc, "pattern": list(map(int, pattern))}
    try:
        if single_cycle and sum(pattern) % 2:
            passed, cross = graph.active_edges_single_cycle_crossable(s, fr, use_graph_primitive=prim)
        else:
            passed, cross = graph.active_edges_connected_crossable(s, fr, single_cycle=single_cycle, use_graph_primitive=prim)
    except Exception as e:
        ctx.violation(f"cross:post-raises:{type(e).__name__}", f"posting raised {e!r}", ctx.current_case)
        return
    if passed.shape != (h + 1, w + 1) or cross.shape != (h + 1, w + 1):
        ctx.violation("cross:result-shape", f"returned shapes {passed.shape}/{cross.shape}", ctx.current_case)
        return
    s.ensure([cvar(sg) if p else ~cvar(sg) for sg, p in zip(segs, pattern)])  # imposed on the arrays the CALLER holds
    s.add_answer_key(passed)
    s.add_answer_key(cross)
    st = msolve.state()
    f0 = st.fired
    try:
        res = s.solve(backend=(D.backend_for(ctx, s, be) if prim else None))
    except OverflowError:
        ctx.inconc("stand-in overflow", ctx.current_case)
        return
    except Exception as e:
        ctx.violation(f"cross:solve-raises:{type(e).__name__}", f"solve raised {e!r}", ctx.current_case)
        return
    hor, ver = split(h, w, pattern)
    want, wpassed, wcross = G.crossable_ok(h, w, hor, ver, single_cycle)
    ctx.count("cross.cases")
    ctx.count("cross.want." + ("valid" if want else "invalid"))
    if single_cycle:
        ctx.count("cross.single_cycle")
    if prim:
        ctx.count("cross.primitive")
    has_cross = any(any(r) for r in wcross)
    if want and has_cross:
        ctx.count("cross.with_crossing_valid")
    if not want and has_cross:
        ctx.count("cross.two_strands_at_crossing")
    ctx.case(["cross", desc, list(map(int, pattern))], nontrivial=True)
    if st.fired != f0:
        return
    enc = "prim" if prim else "aux"
    if res != want:
        ctx.violation(f"cross:{'accepts-invalid' if res else 'rejects-valid'}:{enc}:{'cycle' if single_cycle else 'path'}",
                      f"crossable ({enc}, single_cycle={single_cycle}): satisfiable={res}, definition={want}", ctx.current_case)
        return
    if res:
        gp = [[passed[y, x].sol for x in range(w + 1)] for y in range(h + 1)]
        gc = [[cross[y, x].sol for x in range(w + 1)] for y in range(h + 1)]
        ctx.count("cross.arrays_checked")
        if gp != wpassed:
            ctx.violation(f"cross:passed-array-wrong:{enc}", f"is_passed {gp} != visited points {wpassed}", ctx.current_case)
        elif gc != wcross:
            ctx.violation(f"cross:cross-array-wrong:{enc}", f"is_cross {gc} != 4-way points {wcross}", ctx.current_case)


def random_trail(rng, h, w, closed):
    """A random self-crossing trail on the lattice (as a segment pattern): a walk that may pass straight through an
    already visited degree-2 point exactly once, never reuses a segment, never creates degree 3."""
    segs = L.segments(h, w)
    idx = {sg: i for i, sg in enumerate(segs)}
    H, W = h + 1, w + 1
    for _ in range(50):
        used = set()
        deg = {}
        start = (rng.randrange(H), rng.randrange(W))
        cur, prev_dir = start, None
        steps = rng.randint(2, 2 * (H * W))
        ok = True
        for _ in range(steps):
            opts = []
            for dy, dx in ((0, 1), (0, -1), (1, 0), (-1, 0)):
                ny, nx = cur[0] + dy, cur[1] + dx
                if not (0 <= ny < H and 0 <= nx < W):
                    continue
                sg = ("h", cur[0], min(cur[1], nx)) if dy == 0 else ("v", min(cur[0], ny), cur[1])
                if sg in used:
                    continue
                d = deg.get((ny, nx), 0)
                if d == 0 or ((ny, nx) == start and closed):
                    opts.append(((dy, dx), sg, (ny, nx)))
                elif d == 2 and 0 < ny < H - 1 and 0 < nx < W - 1:
                    # may cross straight through: need the continuation segment free and the existing pair straight & perpendicular
                    sg2 = ("h", ny, min(nx, nx + dx)) if dy == 0 else ("v", min(ny, ny + dy), nx)
                    ny2, nx2 = ny + dy, nx + dx
                    if 0 <= ny2 < H and 0 <= nx2 < W and sg2 not in used:
                        perp = [("v", ny - 1, nx), ("v", ny, nx)] if dy == 0 else [("h", ny, nx - 1), ("h", ny, nx)]
                        if all(p in used for p in perp):
                            opts.append(((dy, dx), sg, (ny, nx)))
            if not opts:
                break
            (dy, dx), sg, nxt = rng.choice(opts)
            used.add(sg)
            deg[cur] = deg.get(cur, 0) + 1
            deg[nxt] = deg.get(nxt, 0) + 1
            cur = nxt
            if deg[cur] == 3:  # entered a crossing point: must continue straight
                ny2, nx2 = cur[0] + dy, cur[1] + dx
                sg2 = ("h", cur[0], min(cur[1], nx2)) if dy == 0 else ("v", min(cur[0], ny2), cur[1])
                if not (0 <= ny2 < H and 0 <= nx2 < W) or sg2 in used:
                    ok = False
                    break
                used.add(sg2)
                deg[cur] += 1
                deg[(ny2, nx2)] = deg.get((ny2, nx2), 0) + 1
                cur = (ny2, nx2)
                if deg[cur] == 3:
                    ok = False
                    break
            if closed and cur == start and len(used) >= 4:
                break
        if ok and used:
            return tuple(1 if sg in used else 0 for sg in segs)
    return tuple(0 for _ in segs)


def run(ctx):
    rng = ctx.rng
    msolve.install(ctx, owner="C01", brute_cap=256)
    mwire.install(ctx)
    be = standin.make("cspuz_core", standin.WireLog())
    thorough = ctx.tier == "thorough"
    work = []
    for h, w in [(0, 0), (0, 2), (2, 0), (1, 1), (1, 2), (2, 1), (1, 3), (3, 1)]:
        for pat in D.all_patterns(len(L.segments(h, w))):
            work.append((h, w, pat))
    all22 = list(D.all_patterns(12))
    work += [(2, 2, p) for p in (all22 if thorough else all22[::2])]
    ctx.exhaustive["frames <= 1x3 and 2x2 (every 2nd subset in quick) x all subsets x single_cycle (aux)"] = thorough
    for k, (h, w, pat) in enumerate(work):
        if not ctx.mine(k):
            continue
        with ctx.guard(120):
            for sc in (False, True):
                one(ctx, h, w, pat, sc, False, be)
            if (k // 16) % 4 == 0 or (thorough and k % 3 == 0):
                one(ctx, h, w, pat, bool(k % 2), True, be)
    # bigger frames: near-valid trails
    for t in range(25 if not thorough else 500):
        h, w = rng.choice([(2, 3), (3, 2), (3, 3), (2, 2), (3, 4), (4, 3)] if thorough else [(2, 3), (3, 2), (3, 3), (2, 2)])
        closed = rng.random() < 0.5
        base = list(random_trail(rng, h, w, closed))
        variants = [tuple(base)]
        for _ in range(3):
            q = list(base)
            i = rng.randrange(len(q))
            q[i] ^= 1
            if rng.random() < 0.4:
                q[rng.randrange(len(q))] ^= 1
            variants.append(tuple(q))
        for pat in variants:
            hor, ver = split(h, w, pat)
            H, W = h + 1, w + 1
            segs = L.segments(h, w)
            if any(len([s for s in L.point_segments(h, w, y, x) if pat[segs.index(s)]]) == 3 for y in range(H) for x in range(W)):
                ctx.count("cross.deg3_patterns")
            with ctx.guard(180):
                for sc in (False, True):
                    one(ctx, h, w, pat, sc, False, be)
                if t % 5 == 0 and h * w <= 6:
                    one(ctx, h, w, pat, closed, True, be)
        if t == 0:
            ctx.sample({"frame": [h, w], "pattern": list(base), "closed": closed})
    mwire.uninstall()
    msolve.uninstall()


def replay(w, ctx):
    msolve.install(ctx, owner="C01", brute_cap=256)
    mwire.install(ctx)
    be = standin.make("cspuz_core", standin.WireLog())
    d = w["desc"]
    one(ctx, d["frame"][0], d["frame"][1], tuple(w["pattern"]), d["single_cycle"], d["primitive"], be)
