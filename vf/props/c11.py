"""C11  Bundled puzzle solvers agree with the puzzles' published rules.

Deciding method: the real solve_<puzzle> runs on generated instances of small
boards; its (is_sat, decided cells) is compared with the ground truth obtained
by enumerating ALL rule-obeying answer grids with a definition-level checker
(refs/rules.py, no CSP).  Where the published rule has an open corner the truth
is computed under every reading and the instance is judged only if the readings
agree.  M-SOLVE stays on as an assistant."""
import json

from ..monitors import msolve
from ..refs import planted, rules

RULE = ("(a) per puzzle module: random instances on boards up to 9 cells (loop puzzles 12; thorough 12/16) incl. non-square and 1xN shapes, clue "
        "layouts random over the format's clue alphabet incl. zero clues and clues on edges/corners; ground truth = exhaustive enumeration of "
        "the candidate answer space (colourings, lattice cycles, Latin squares, connected partitions, triangle assignments) filtered by the "
        "published rules; one evaluation = one instance compared (is_sat and every answer cell); distinct by (puzzle, instance); non-trivial "
        "when the instance has at least one clue/room boundary and was judged; (b) for 16 puzzles additionally instances on 4x4..7x7 (sudoku 9x9) "
        "boards built around a planted rule-obeying grid: the solver must report a solution and every decided cell must carry the planted value")
ASSUMPTIONS = ["rule readings as tabulated in DESIGN.md Appendix A; instances on which the readings of a rule disagree are counted as unjudged_ambiguous",
               "fivecells: the returned border array follows the module's edge order (cells row-major, down-neighbour before right-neighbour)",
               "unpublished format values (nurimisaki clue 1, checkered fillomino, castle-wall colours on non-clue cells, inconsistent simpleloop pivot) are not generated"]
REQUIRED = ["c11.judged", "c11.planted", "c11.planted_decided_cells"] + ["c11.planted." + n for n in planted.PLANTERS] + ["c11.judged." + n for n in rules.PUZZLES] + ["c11.sat", "c11.unsat", "c11.undecided_cells", "c11.decided_cells", "c11.nonsquare"]
INCONCLUSIVE_CAP = 0.05


def plan(tier):
    return {"shards": 16}


def facts(sols):
    if not sols:
        return None
    out = {}
    for k in sols[0]:
        vs = {s[k] for s in sols}
        out[k] = next(iter(vs)) if len(vs) == 1 else None
    return out


def shape_class(inst):
    h, w = inst.get("h", inst.get("n")), inst.get("w", inst.get("n"))
    if h == 1 or w == 1:
        return "1xN"
    if h > w:
        return "tall"
    if h < w:
        return "wide"
    return "square"


def judge(ctx, name, inst):
    spec = rules.PUZZLES[name]
    ctx.current_case = {"puzzle": name, "instance": inst}
    sc = shape_class(inst)
    truth = spec.truth(inst)
    if truth is None:
        ctx.count("c11.unjudged_too_many_solutions")
        return
    tables = {r: facts(s) for r, s in truth.items()}
    vals = list(tables.values())
    try:
        is_sat, got = spec.solve(inst)
    except Exception as e:
        ctx.case([name, inst], nontrivial=True)
        ctx.violation(f"{name}:raises:{type(e).__name__}:{sc}", f"solve_{name} raised {e!r} on a well-formed instance", ctx.current_case)
        return
    if any(v != vals[0] for v in vals[1:]):
        ctx.count("c11.unjudged_ambiguous")
        ctx.count("c11.unjudged_ambiguous." + name)
        ctx.case([name, inst], nontrivial=False)
        return
    t = vals[0]
    ctx.case([name, inst], nontrivial=True)
    ctx.count("c11.judged")
    ctx.count("c11.judged." + name)
    if sc != "square":
        ctx.count("c11.nonsquare")
    nsol = len(next(iter(truth.values())))
    if (t is not None) != bool(is_sat):
        ctx.violation(f"{name}:wrong-sat:{'claims-solution' if is_sat else 'claims-none'}:{sc}",
                      f"solve_{name} reports is_sat={is_sat} but {nsol} grid(s) obey the rules", ctx.current_case)
        return
    if t is None:
        ctx.count("c11.unsat")
        return
    ctx.count("c11.sat")
    if set(got) != set(t):
        ctx.violation(f"{name}:answer-shape", f"answer cells {sorted(got)[:6]}.. differ from the board's cells", ctx.current_case)
        return
    for k in t:
        if t[k] is None:
            ctx.count("c11.undecided_cells")
        else:
            ctx.count("c11.decided_cells")
        if got[k] != t[k] or type(got[k]) is not type(t[k]):
            kind = "overclaimed" if t[k] is None else ("underclaimed" if got[k] is None else "wrong-value")
            ctx.violation(f"{name}:cell-{kind}:{sc}", f"solve_{name}: cell {k} reported {got[k]!r}, all {nsol} rule-obeying grids give {t[k]!r}",
                          dict(ctx.current_case, cell=k, solutions=nsol))
            return


def sample_models(ctx, name, inst, n, tag):
    """Soundness on boards too large to enumerate: full models of the REAL encoding (several, pairwise different on the answer keys)
    are handed to the independent rule checker.  A model the rules refute means the encoding admits a grid that breaks the rules -
    the direction a planted solution cannot see."""
    spec = rules.PUZZLES[name]
    if getattr(spec, "check_model", None) is None:
        return
    with msolve.model_sampler() as ms:
        for k in range(n):
            ms.mode = [None, "dense", "sparse", "dense", "sparse", None][k % 6]
            try:
                is_sat, got = spec.solve(inst)
            except Exception as e:
                ctx.count("c11.sampler_raised")
                ctx.note(f"model sampler: solve_{name} raised {type(e).__name__}")
                return
            if not is_sat:
                ctx.count("c11.sampler_exhausted")
                if ms.mode is None:
                    return
                continue  # no denser / sparser model exists: try the other direction
            ctx.count("c11.models_sampled")
            ctx.count("c11.models_sampled." + name)
            if not spec.check_model(inst, got):
                ctx.violation(f"{name}:model-breaks-rules:{shape_class(inst)}:{tag}",
                              f"solve_{name}'s encoding has a model (sample #{k + 1}) that the rule checker refutes: the solver admits a grid that "
                              "does not obey the rules", dict(ctx.current_case, model={kk: v for kk, v in got.items() if v}, sample=k))
                return


def validator_selfcheck(ctx, rng, n):
    """The stand-alone rule validators against the exhaustive enumeration on small boards: every enumerated solution must pass, and
    a one-entry perturbation that is not an enumerated solution must be refuted.  A disagreement is a harness defect (inconclusive)."""
    for name, spec in rules.PUZZLES.items():
        if getattr(spec, "check_model", None) is None:
            continue
        for _ in range(n):
            inst = spec.gen(rng, False)
            truth = spec.truth(inst)
            if truth is None:
                continue
            sols = [s for v in truth.values() for s in v]
            keyset = [tuple(sorted(s.items())) for s in sols]
            allsol = set(keyset)
            for s in sols[:6]:
                ctx.count("c11.validator_selfcheck")
                if not spec.check_model(inst, s):
                    ctx.inconc("harness: a rule validator refutes an enumerated solution", {"puzzle": name, "instance": inst, "solution": s})
                    continue
                if not s:
                    continue
                k = rng.choice(sorted(s))
                t = dict(s)
                t[k] = (not t[k]) if isinstance(t[k], bool) else (t[k] + 1)
                if tuple(sorted(t.items())) not in allsol and spec.check_model(inst, t):
                    ctx.inconc("harness: a rule validator accepts a grid the enumeration does not contain", {"puzzle": name, "instance": inst, "grid": t})
                else:
                    ctx.count("c11.validator_selfcheck_perturbation_refuted")


def judge_planted(ctx, name, inst, sol):
    """Boards too large to enumerate: the instance was built around a rule-obeying grid (partial, sound oracle)."""
    spec = rules.PUZZLES[name]
    ctx.current_case = {"puzzle": name, "instance": inst, "planted": True}
    sc = shape_class(inst)
    try:
        is_sat, got = spec.solve(inst)
    except Exception as e:
        ctx.case(["planted", name, inst], nontrivial=True)
        ctx.violation(f"{name}:raises:{type(e).__name__}:{sc}", f"solve_{name} raised {e!r} on a well-formed instance", ctx.current_case)
        return
    ctx.case(["planted", name, inst], nontrivial=True)
    ctx.count("c11.planted")
    ctx.count("c11.planted." + name)
    if getattr(spec, "check_model", None) is not None:
        # the two independent pieces of the harness (planter, validator) must agree before either is used against the solver
        if not spec.check_model(inst, sol):
            ctx.inconc("harness: the rule validator refutes the planted grid", dict(ctx.current_case, planted_solution=sol))
            return
        ctx.count("c11.planted_grid_validated")
    if not is_sat:
        ctx.violation(f"{name}:wrong-sat:claims-none:{sc}:planted", f"solve_{name} reports no solution for an instance built around a rule-obeying grid",
                      dict(ctx.current_case, planted_solution=sol))
        return
    if set(got) != set(sol):
        ctx.violation(f"{name}:answer-shape", "answer cells differ from the board's cells", ctx.current_case)
        return
    for k, v in got.items():
        if v is None:
            ctx.count("c11.planted_undecided_cells")
            continue
        ctx.count("c11.planted_decided_cells")
        if v != sol[k] or type(v) is not type(sol[k]):
            ctx.violation(f"{name}:cell-wrong-value:{sc}:planted", f"solve_{name}: cell {k} decided as {v!r} but the planted rule-obeying grid has {sol[k]!r}",
                          dict(ctx.current_case, cell=k, planted_solution=sol))
            return


def run(ctx):
    rng = ctx.rng
    msolve.install(ctx, owner="C01", brute_cap=64)
    thorough = ctx.tier == "thorough"
    per = 48 if not thorough else 150
    names = list(rules.PUZZLES)
    for t in range(per):
        for name in names:
            inst = rules.PUZZLES[name].gen(rng, thorough and rng.random() < 0.25)
            with ctx.guard(120):
                judge(ctx, name, inst)
            if (name == "star_battle" and inst.get("n", 0) >= 8) or (name == "putteria" and inst["h"] * inst["w"] >= 16):
                # large boards of the two puzzles that have an exact large-board truth but no planter: full models to the validator too
                with ctx.guard(90):
                    sample_models(ctx, name, inst, 2, "random")
            if t == 0 and ctx.shard == 0 and name in ("slitherlink", "heyawake"):
                ctx.sample({"puzzle": name, "instance": inst})
    if ctx.shard % 4 == 0:
        validator_selfcheck(ctx, rng, 3 if not thorough else 20)
    # on the large boards the 'decided cells' clause is probed through the back end's own yes/no answers (M-SOLVE probe): a decided
    # cell must be forced in the posted program, an undecided one must admit two values
    mst = msolve.state()
    mst.probe, mst.probe_owner = 2, "C11"
    for t in range(2 if not thorough else 12):
        for name in planted.PLANTERS:
            r = planted.plant(name, rng)
            if r is None:
                ctx.count("c11.planting_failed")
                continue
            with ctx.guard(90):
                judge_planted(ctx, name, r[0], r[1])
            with ctx.guard(90):
                sample_models(ctx, name, r[0], 4 if not thorough else 6, "planted")
    mst.probe = 0
    msolve.uninstall()


def replay(w, ctx):
    msolve.install(ctx, owner="C01", brute_cap=64)
    if w.get("planted"):
        judge_planted(ctx, w["puzzle"], w["instance"], w["planted_solution"])
        return
    judge(ctx, w["puzzle"], w["instance"])
    spec = rules.PUZZLES[w["puzzle"]]
    print(json.dumps({"truth_counts": {r: len(s) for r, s in (spec.truth(w["instance"]) or {}).items()}}))
