"""C20  The backend and encoding actually used are the ones configured.

Deciding method: one fresh interpreter per configuration (vf/workloads/conf_child.py)
observes, through an audit hook, class-instantiation wrappers, stub extension
modules and the fake sugar executable: the import probe order, the configuration
after import, which backend class was instantiated, which external entry point
received the text, and whether native graph operators were posted / emitted.
A decision table written from the statement is the oracle."""
import json
import os
import subprocess
import sys
import tempfile

RULE = ("CSPUZ_DEFAULT_BACKEND in {unset, auto, z3, sugar, sugar_extended, csugar, enigma_csp, cspuz_core, bogus} x importable subset of "
        "{cspuz_core, enigma_csp, pycsugar, z3} (all 16) x CSPUZ_USE_GRAPH_PRIMITIVE / ..._DIVISION_PRIMITIVE in {unset, 1, 0, true, FALSE, "
        "True, yes, '', 2} x post-import assignments to config.* x per-call backend (None, each name, bogus, a class) x per-call "
        "use_graph_primitive (None, True, False) x graph function with a primitive branch x acyclic x find_answer/solve; sampled uniformly per "
        "shard (all-pairs coverage is counted), one interpreter per configuration; one evaluation = one interpreter run compared with the "
        "decision table; distinct by configuration; every configuration is non-trivial")
ASSUMPTIONS = ["absence / presence of backend modules is simulated by a meta-path blocker and stub modules; the real z3 wheel is used when present",
               "the per-call argument of the graph functions is taken as 'explicit argument'; division_connected has none and follows the flag"]
REQUIRED = ["c20.children", "c20.auto_detect", "c20.env_backend", "c20.bogus_env_backend", "c20.bad_bool_env", "c20.per_call_backend", "c20.post_assign_backend",
            "c20.prim_arg_true", "c20.prim_arg_false", "c20.prim_from_flag", "c20.acyclic", "c20.expect_native", "c20.expect_no_native",
            "c20.entry.sugar-exe", "c20.entry.cspuz_core", "c20.entry.enigma_csp", "c20.entry.pycsugar", "c20.class.Z3Backend", "c20.valueerror_expected", "c20.followup_solves", "c20.followup_entry.cspuz_core",
            "c20.followup_entry.pycsugar", "c20.followup_entry.enigma_csp", "c20.followup_entry.sugar-exe"]
HOME = os.environ.get("VERIF_HOME", "/verif")
REPO = os.environ.get("VERIF_REPO", "/repo")
NAMES = ["z3", "sugar", "sugar_extended", "csugar", "enigma_csp", "cspuz_core"]
CLASS_OF = {"z3": "Z3Backend", "sugar": "SugarBackend", "sugar_extended": "SugarExtendedBackend", "csugar": "CSugarBackend",
            "enigma_csp": "EnigmaCSPBackend", "cspuz_core": "CspuzCoreBackend"}
ENTRY_OF = {"z3": None, "sugar": "sugar-exe", "sugar_extended": "sugar-exe", "csugar": "pycsugar", "enigma_csp": "enigma_csp", "cspuz_core": "cspuz_core"}
MODULE_OF = {"z3": "z3", "csugar": "pycsugar", "enigma_csp": "enigma_csp", "cspuz_core": "cspuz_core"}
BOOLS = [None, "1", "0", "true", "FALSE", "True", "yes", "", "2"]


def plan(tier):
    return {"shards": 16}


def strict_bool(s):
    t = s.lower()
    if t in ("true", "1"):
        return True
    if t in ("false", "0"):
        return False
    raise ValueError(s)


def expected(cfg):
    """Decision table from the statement -> dict of expectations."""
    exp = {}
    present = cfg["present"]
    envb = cfg["env_backend"]
    # --- import time
    if envb is None or envb == "auto":
        for name, mod in (("cspuz_core", "cspuz_core"), ("enigma_csp", "enigma_csp"), ("csugar", "pycsugar"), ("z3", "z3")):
            if mod in present:
                default = name
                break
        else:
            default = "sugar"
        exp["auto"] = True
    else:
        default = envb
    exp["default_backend"] = default
    try:
        gp = strict_bool(cfg["env_prim"]) if cfg["env_prim"] is not None else default in ("csugar", "enigma_csp", "cspuz_core")
        gd = strict_bool(cfg["env_div"]) if cfg["env_div"] is not None else default in ("enigma_csp", "cspuz_core")
    except ValueError:
        exp["import_error"] = "ValueError"
        return exp
    exp["use_graph_primitive"] = gp
    exp["use_graph_division_primitive"] = gd
    # --- post-import assignments
    post = cfg.get("post") or {}
    default = post.get("default_backend", default)
    gp = post.get("use_graph_primitive", gp)
    gd = post.get("use_graph_division_primitive", gd)
    # --- encoding
    fn = cfg["fn"]
    arg = cfg.get("prim_arg")
    if fn in ("avc", "avc_graph"):
        prim = (arg if arg is not None else gp) and not cfg.get("acyclic", False)
        exp["native_connected"], exp["native_division"] = bool(prim), False
    elif fn in ("division", "single_loop"):
        exp["native_connected"], exp["native_division"] = bool(gp), False
    elif fn in ("cycle", "crossable"):
        exp["native_connected"], exp["native_division"] = bool(arg if arg is not None else gp), False
    elif fn == "borders":
        exp["native_connected"], exp["native_division"] = False, bool(arg if arg is not None else gd)
    else:
        exp["native_connected"], exp["native_division"] = False, False
    # --- backend receiving the solve
    barg = cfg.get("backend_arg")
    if barg is None:
        name = default
    elif barg.startswith("CLASS:"):
        name = barg[6:]
    else:
        name = barg
    exp["backend_name"] = name
    if name not in CLASS_OF:
        exp["solve_error"] = "ValueError"
        return exp
    exp["class"] = CLASS_OF[name]
    mod = MODULE_OF.get(name)
    if mod is not None and mod not in present:
        exp["solve_error"] = "ImportError"
        return exp
    exp["entry"] = ENTRY_OF[name]
    return exp


def gen_cfg(rng):
    present = [m for m in ("cspuz_core", "enigma_csp", "pycsugar", "z3") if rng.random() < 0.5]
    envb = rng.choice([None, None, "auto", "z3", "sugar", "sugar_extended", "csugar", "enigma_csp", "cspuz_core", "bogus"])
    cfg = {"present": present, "env_backend": envb,
           "env_prim": rng.choice(BOOLS) if rng.random() < 0.5 else None,
           "env_div": rng.choice(BOOLS) if rng.random() < 0.4 else None}
    post = {}
    if rng.random() < 0.3:
        post["default_backend"] = rng.choice(NAMES + ["bogus2"])
    if rng.random() < 0.25:
        post["use_graph_primitive"] = rng.random() < 0.5
    if rng.random() < 0.2:
        post["use_graph_division_primitive"] = rng.random() < 0.5
    cfg["post"] = post
    cfg["fn"] = rng.choice(["avc", "avc", "avc_graph", "division", "cycle", "single_loop", "crossable", "borders", "plain"])
    cfg["acyclic"] = cfg["fn"] in ("avc", "avc_graph") and rng.random() < 0.4
    cfg["prim_arg"] = rng.choice([None, None, True, False]) if cfg["fn"] in ("avc", "avc_graph", "cycle", "crossable", "borders") else None
    cfg["backend_arg"] = rng.choice([None, None, None] + NAMES + ["nope", "CLASS:z3", "CLASS:cspuz_core"])
    cfg["call"] = rng.choice(["find_answer", "solve"])
    # later solves in the same process: what one solve loaded or remembered must not decide who receives the next one
    cfg["followups"] = []
    for _ in range(rng.choice([0, 1, 2, 3])):
        fu = {"backend_arg": rng.choice([None] + NAMES + NAMES + ["nope"]), "call": rng.choice(["find_answer", "solve"])}
        if rng.random() < 0.3:
            fu["default_backend"] = rng.choice(NAMES)
        cfg["followups"].append(fu)
    return cfg


def run_child(cfg, seed):
    env = {k: v for k, v in os.environ.items() if not k.startswith("CSPUZ_") or k == "CSPUZ_VERIF"}
    env["VERIF_HOME"], env["VERIF_REPO"] = HOME, REPO
    env.pop("PYTHONPATH", None)
    env["PYTHONPATH"] = ""
    if cfg["env_backend"] is not None:
        env["CSPUZ_DEFAULT_BACKEND"] = cfg["env_backend"]
    if cfg["env_prim"] is not None:
        env["CSPUZ_USE_GRAPH_PRIMITIVE"] = cfg["env_prim"]
    if cfg["env_div"] is not None:
        env["CSPUZ_USE_GRAPH_DIVISION_PRIMITIVE"] = cfg["env_div"]
    env["CSPUZ_BACKEND_PATH"] = os.path.join(HOME, "stubs", "bin", "sugar")
    fd, log = tempfile.mkstemp(prefix="wire-", dir="/var/tmp")
    os.close(fd)
    env["VERIF_WIRE_LOG"] = log
    env["VERIF_SEED"] = str(seed)
    env["VERIF_STANDIN_TRIVIAL"] = "1"
    try:
        p = subprocess.run([sys.executable, os.path.join(HOME, "vf", "workloads", "conf_child.py"), json.dumps(cfg)], env=env,
                           capture_output=True, text=True, timeout=120)
    except subprocess.TimeoutExpired:
        return None, "timeout"
    finally:
        if os.path.exists(log):
            os.remove(log)
    for line in p.stdout.splitlines():
        if line.startswith("OBS "):
            return json.loads(line[4:]), None
    return None, (p.stderr or p.stdout)[-400:]


def judge(ctx, cfg, obs):
    exp = expected(cfg)
    w = {"config": cfg, "expected": exp, "observed": {k: obs.get(k) for k in ("config", "probes_at_import", "instantiated", "entries", "import_error",
                                                                              "build_error", "solve_error", "posted_native_connected",
                                                                              "posted_native_division", "text_native_connected", "text_native_division")}}

    def bad(mech, what):
        ctx.violation(mech, what, w)

    # ---- import phase
    if exp.get("import_error"):
        ctx.count("c20.bad_bool_env")
        ctx.count("c20.valueerror_expected")
        if obs.get("import_error") != "ValueError":
            bad("flag-parse:not-rejected", f"a malformed boolean in the environment was accepted (import_error={obs.get('import_error')})")
        return
    if obs.get("import_error"):
        bad(f"import-raises:{obs['import_error']}", f"import cspuz raised {obs['import_error']}: {obs.get('import_error_text')}")
        return
    oc = obs["config"]
    if exp.get("auto"):
        ctx.count("c20.auto_detect")
        order = ["cspuz_core", "enigma_csp", "pycsugar", "z3"]
        want_probes = []
        for m in order:
            want_probes.append(m)
            if m in cfg["present"]:
                break
        if obs["probes_at_import"] != want_probes:
            bad("autodetect:probe-order", f"import probes {obs['probes_at_import']}, expected {want_probes}")
            return
    else:
        ctx.count("c20.env_backend")
        if cfg["env_backend"] == "bogus":
            ctx.count("c20.bogus_env_backend")
    if oc["default_backend"] != exp["default_backend"]:
        bad("default-backend", f"config.default_backend = {oc['default_backend']!r}, expected {exp['default_backend']!r}")
        return
    if oc["use_graph_primitive"] is not exp["use_graph_primitive"] or oc["use_graph_division_primitive"] is not exp["use_graph_division_primitive"]:
        bad("flag-default", f"flags after import {oc['use_graph_primitive']}/{oc['use_graph_division_primitive']}, expected "
            f"{exp['use_graph_primitive']}/{exp['use_graph_division_primitive']}")
        return
    # ---- encoding
    if obs.get("build_error"):
        bad(f"build-raises:{obs['build_error']}", f"posting the graph constraint raised {obs['build_error']}: {obs.get('build_error_text')}")
        return
    if cfg.get("acyclic"):
        ctx.count("c20.acyclic")
    if cfg.get("prim_arg") is True:
        ctx.count("c20.prim_arg_true")
    elif cfg.get("prim_arg") is False:
        ctx.count("c20.prim_arg_false")
    elif cfg["fn"] != "plain":
        ctx.count("c20.prim_from_flag")
    ctx.count("c20.expect_native" if (exp["native_connected"] or exp["native_division"]) else "c20.expect_no_native")
    if obs["posted_native_connected"] != exp["native_connected"]:
        bad("encoding:native-connected" + (":acyclic" if cfg.get("acyclic") else ""),
            f"native connectivity operator posted={obs['posted_native_connected']}, expected {exp['native_connected']} for {cfg['fn']}")
        return
    if obs["posted_native_division"] != exp["native_division"]:
        bad("encoding:native-division", f"native division operator posted={obs['posted_native_division']}, expected {exp['native_division']}")
        return
    # ---- backend receiving the solve
    if cfg.get("backend_arg") is not None:
        ctx.count("c20.per_call_backend")
    elif "default_backend" in (cfg.get("post") or {}):
        ctx.count("c20.post_assign_backend")
    if exp.get("solve_error") == "ValueError":
        ctx.count("c20.valueerror_expected")
        if obs.get("solve_error") != "ValueError":
            bad("unknown-backend-not-rejected", f"backend name {exp['backend_name']!r} was not rejected with ValueError (got {obs.get('solve_error')}, "
                f"instantiated {obs.get('instantiated')})")
        elif obs.get("instantiated"):
            bad("unknown-backend-instantiated", f"a backend was instantiated for the unknown name {exp['backend_name']!r}")
        return
    inst = obs.get("instantiated") or []
    if not inst or inst[0] != exp["class"] or any(c != exp["class"] for c in inst):
        bad("wrong-backend-class", f"backend classes instantiated {inst}, expected {exp['class']} (per-call={cfg.get('backend_arg')!r}, "
            f"default={(cfg.get('post') or {}).get('default_backend', exp['default_backend'])!r})")
        return
    ctx.count("c20.class." + exp["class"])
    if exp.get("solve_error") == "ImportError":
        if obs.get("solve_error") not in ("ImportError", "ModuleNotFoundError"):
            bad("absent-module-used", f"module for {exp['backend_name']} is absent but the solve did not fail with ImportError ({obs.get('solve_error')})")
        return
    natives = exp["native_connected"] or exp["native_division"]
    if exp["backend_name"] == "z3":
        if obs.get("entries"):
            bad("wrong-entry-point", f"z3 was selected but external entry points {obs['entries']} were invoked")
        return  # z3 cannot take native operators: an error there is the configuration's own fault
    ent = obs.get("entries") or []
    if not ent or any(e != exp["entry"] for e in ent):
        bad("wrong-entry-point", f"entry points invoked {ent}, expected {exp['entry']} (solve_error={obs.get('solve_error')})")
        return
    ctx.count("c20.entry." + exp["entry"])
    if obs["text_native_connected"] != exp["native_connected"] or obs["text_native_division"] != exp["native_division"]:
        bad("emitted-text-natives", f"emitted text natives {obs['text_native_connected']}/{obs['text_native_division']}, expected "
            f"{exp['native_connected']}/{exp['native_division']}")
        return
    if obs.get("solve_error"):
        bad(f"solve-raises:{obs['solve_error']}", f"solve through {exp['backend_name']} raised {obs['solve_error']}: {obs.get('solve_error_text')}")


def judge_followups(ctx, cfg, obs):
    """Each later solve of the same process is judged against the same decision table (plain program: no natives involved)."""
    exp = expected(cfg)
    if exp.get("import_error") or obs.get("import_error") or obs.get("build_error"):
        return
    default = (cfg.get("post") or {}).get("default_backend", exp["default_backend"])
    for k, (fu, rec) in enumerate(zip(cfg.get("followups") or [], obs.get("followups") or [])):
        default = fu.get("default_backend", default)
        name = fu["backend_arg"] if fu.get("backend_arg") is not None else default
        w = {"config": cfg, "followup": k, "expected_backend": name, "observed": rec}
        ctx.count("c20.followup_solves")
        if name not in CLASS_OF:
            if rec.get("solve_error") != "ValueError" or rec.get("instantiated"):
                ctx.violation("followup:unknown-backend-not-rejected", f"later solve with backend name {name!r}: {rec}", w)
            continue
        inst = rec.get("instantiated") or []
        if not inst or any(c != CLASS_OF[name] for c in inst):
            ctx.violation("followup:wrong-backend-class", f"later solve #{k + 1}: classes instantiated {inst}, expected {CLASS_OF[name]}", w)
            continue
        mod = MODULE_OF.get(name)
        if mod is not None and mod not in cfg["present"]:
            if rec.get("solve_error") not in ("ImportError", "ModuleNotFoundError"):
                ctx.violation("followup:absent-module-used", f"later solve #{k + 1} through {name}: module absent but no ImportError ({rec})", w)
            continue
        ent = rec.get("entries") or []
        if name == "z3":
            if ent:
                ctx.violation("followup:wrong-entry-point", f"later solve #{k + 1}: z3 selected but {ent} invoked", w)
            continue
        if not ent or any(e != ENTRY_OF[name] for e in ent):
            ctx.violation("followup:wrong-entry-point", f"later solve #{k + 1} through {name}: entry points {ent}, expected {ENTRY_OF[name]} "
                          f"(solve_error={rec.get('solve_error')})", w)
            continue
        ctx.count("c20.followup_entry." + ENTRY_OF[name])
        if rec.get("solve_error"):
            ctx.violation(f"followup:solve-raises:{rec['solve_error']}", f"later solve #{k + 1} through {name} raised {rec.get('solve_error_text')}", w)


def run(ctx):
    rng = ctx.rng
    n = 110 if ctx.tier == "quick" else 2500
    for t in range(n):
        cfg = gen_cfg(rng)
        ctx.current_case = cfg
        obs, err = run_child(cfg, ctx.seed)
        ctx.count("c20.children")
        ctx.case(cfg, nontrivial=True)
        if obs is None:
            ctx.inconc("child produced no observation", {"config": cfg, "err": err})
            continue
        judge(ctx, cfg, obs)
        judge_followups(ctx, cfg, obs)
        if t < 1:
            ctx.sample({"config": cfg, "expected": expected(cfg)})


def replay(w, ctx):
    cfg = w.get("config") or w
    obs, err = run_child(cfg, 0)
    print(json.dumps(obs, indent=1), err)
    if obs:
        judge(ctx, cfg, obs)
