"""C12  Array operators and aggregate helpers have pointwise / mathematical meaning.

Deciding method: every operator form is invoked through Python syntax on
generated operands (client boundary) and judged: result class/shape, pointwise
denotation under reference evaluation, exception on ill-shaped / ill-kinded use;
M-ARRAY's contracts on _elementwise and on the aggregate helpers run on every
call (also on those issued by graph encodings and puzzle solvers)."""
import itertools
import operator

import cspuz
from cspuz import constraints as C
from cspuz.array import BoolArray1D, BoolArray2D, IntArray1D, IntArray2D, Array1D, Array2D
from cspuz.expr import BoolExpr, IntExpr, Expr

from ..monitors import marray
from ..refs.ref_eval import ev, IllTyped

RULE = ("shapes: 1D sizes 0..5, 2D 0..4 x 0..4 (incl. empty, 1xN, Nx1); operand kinds: array of variables, array of compound expressions, "
        "scalar variable/expression, Python literal, wrong-kind array/scalar, wrong-shape array (1D vs 2D included); operator forms: "
        "~ - & | ^ == != + - >= > <= < then cond in direct and reflected order, method and module-function forms; helpers over random "
        "nestings of lists/tuples/generators/arrays/literals incl. empty and constant-only; conv2d windows 1..5 x 1..5; four_neighbors at "
        "every in-bounds cell; one evaluation = one operator/helper invocation judged; distinct by (form, operand kinds, shapes, outcome class); "
        "non-trivial when a denotation or a required rejection was actually checked")
ASSUMPTIONS = ["ref_eval is the meaning of an expression tree",
               "'==' / '!=' between mismatched kinds and a Python bool literal in an integer position (or int literal in a boolean position) "
               "are outside the statement's list: recorded, not judged"]
REQUIRED = ["c12.ok_checked", "c12.reject_checked", "c12.form.and", "c12.form.rsub", "c12.form.then", "c12.form.cond", "c12.form.cthen",
            "c12.form.ccond", "c12.form.scalar_then_array", "c12.form.scalar_cond_array", "c12.shape_mismatch", "c12.kind_mismatch",
            "marray.elementwise", "marray.helper.count_true", "marray.helper.fold_or", "marray.helper.fold_and", "marray.helper.alldifferent",
            "marray.helper_empty.count_true", "marray.helper_constant_only.fold_or", "marray.conv2d", "marray.four_neighbors",
            "marray.four_neighbor_indices", "c12.empty_shape"]


def plan(tier):
    return {"shards": 16}


# form -> (arity, operand kinds required (in syntactic order), result kind, callable on python objects, semantics on values)
def _method(name):
    return lambda a, *rest: getattr(a, name)(*rest)


FORMS = {
    "invert": (("b",), "b", operator.invert, lambda a: not a),
    "neg": (("i",), "i", operator.neg, lambda a: -a),
    "and": (("b", "b"), "b", operator.and_, lambda a, b: a and b),
    "or": (("b", "b"), "b", operator.or_, lambda a, b: a or b),
    "xor": (("b", "b"), "b", operator.xor, lambda a, b: a != b),
    "beq": (("b", "b"), "b", operator.eq, lambda a, b: a == b),
    "bne": (("b", "b"), "b", operator.ne, lambda a, b: a != b),
    "add": (("i", "i"), "i", operator.add, lambda a, b: a + b),
    "sub": (("i", "i"), "i", operator.sub, lambda a, b: a - b),
    "ieq": (("i", "i"), "b", operator.eq, lambda a, b: a == b),
    "ine": (("i", "i"), "b", operator.ne, lambda a, b: a != b),
    "ge": (("i", "i"), "b", operator.ge, lambda a, b: a >= b),
    "gt": (("i", "i"), "b", operator.gt, lambda a, b: a > b),
    "le": (("i", "i"), "b", operator.le, lambda a, b: a <= b),
    "lt": (("i", "i"), "b", operator.lt, lambda a, b: a < b),
    "then": (("b", "b"), "b", _method("then"), lambda a, b: (not a) or b),
    "cond": (("b", "i", "i"), "i", _method("cond"), lambda c, t, f: t if c else f),
    "cthen": (("b", "b"), "b", lambda a, b: C.then(a, b), lambda a, b: (not a) or b),
    "ccond": (("b", "i", "i"), "i", lambda c, t, f: cspuz.cond(c, t, f), lambda c, t, f: t if c else f),
}
EQ_FORMS = {"beq", "bne", "ieq", "ine"}


class Pool:
    """Operands over a fixed set of variables (so that assignments stay enumerable)."""

    def __init__(self, rng):
        self.rng = rng
        self.s = cspuz.Solver()
        self.bv = [self.s.bool_var() for _ in range(4)]
        self.iv = [self.s.int_var(-2, 2) for _ in range(3)]

    def scalar(self, kind, compound=None):
        r = self.rng
        compound = r.random() < 0.4 if compound is None else compound
        if kind == "b":
            x = r.choice(self.bv)
            if compound:
                x = r.choice([~x, x & r.choice(self.bv), r.choice(self.iv) < 1, x | (r.choice(self.iv) == 0)])
            return x
        x = r.choice(self.iv)
        if compound:
            x = r.choice([x + 1, -x, x - r.choice(self.iv), r.choice(self.bv).cond(x, 3)])
        return x

    def literal(self, kind):
        return self.rng.random() < 0.5 if kind == "b" else self.rng.randint(-3, 3)

    def array(self, kind, shape):
        n = shape[0] if len(shape) == 1 else shape[0] * shape[1]
        data = [self.scalar(kind) for _ in range(n)]
        if len(shape) == 1:
            arr = (BoolArray1D if kind == "b" else IntArray1D)(data)
        else:
            arr = (BoolArray2D if kind == "b" else IntArray2D)(data, tuple(shape))
        # the caller goes on using its own list: the array must not follow (history; the oracle walks the array element by element)
        if self.rng.random() < 0.5:
            data.append(self.scalar(kind))
        else:
            data.clear()
        return arr

    def variables(self):
        return {v.id: v for v in self.bv + self.iv}


def kind_of(x):
    if isinstance(x, (BoolArray1D, BoolArray2D)):
        return "B"
    if isinstance(x, (IntArray1D, IntArray2D)):
        return "I"
    if isinstance(x, bool):
        return "lb"
    if isinstance(x, int):
        return "li"
    if isinstance(x, BoolExpr):
        return "b"
    if isinstance(x, IntExpr):
        return "i"
    return "?"


def elems(x, n):
    return list(x.data) if isinstance(x, (Array1D, Array2D)) else [x] * n


def judge(ctx, pool, form, ops, tag):
    kinds_req, res_kind, fn, sem = FORMS[form]
    rng = ctx.rng
    desc = {"form": form, "operands": [f"{kind_of(o)}{list(o.shape) if isinstance(o, (Array1D, Array2D)) else ''}" for o in ops], "tag": tag}
    ctx.current_case = desc
    arrays = [o for o in ops if isinstance(o, (Array1D, Array2D))]
    shapes = {tuple(a.shape) for a in arrays}
    shape_mismatch = len(shapes) > 1
    kind_mismatch_expr = False  # a bool-valued expression/array where an int-valued one is required or vice versa
    literal_oddity = False
    for o, req in zip(ops, kinds_req):
        k = kind_of(o)
        if k in ("B", "b") and req == "i" or k in ("I", "i") and req == "b":
            kind_mismatch_expr = True
        if k == "lb" and req == "i" or k == "li" and req == "b":
            literal_oddity = True
    try:
        res = fn(*ops)
        exc = None
    except Exception as e:
        res, exc = None, e
    ctx.count("c12.form." + form)
    outcome = "raised" if exc is not None else ("NotImplemented" if res is NotImplemented else "value")
    ctx.case([form, desc["operands"], outcome], nontrivial=True)
    if shape_mismatch or kind_mismatch_expr:
        if form in EQ_FORMS and kind_mismatch_expr and not shape_mismatch:
            ctx.count("c12.unjudged_eq_mismatch")
            return
        if literal_oddity and not kind_mismatch_expr and not shape_mismatch:
            ctx.count("c12.unjudged_literal")
            return
        ctx.count("c12.reject_checked")
        ctx.count("c12.shape_mismatch" if shape_mismatch else "c12.kind_mismatch")
        if exc is None:
            what = "shape" if shape_mismatch else "kind"
            where = "array" if arrays else "scalar"
            ctx.violation(f"illtyped-accepted:{what}:{form}:{where}",
                          f"{form} with mismatched {what} returned {('the NotImplemented object' if res is NotImplemented else type(res).__name__)} instead of raising",
                          desc)
        return
    if literal_oddity:
        ctx.count("c12.unjudged_literal")
        return
    if not arrays:
        return  # scalar-only forms belong to C01
    if exc is not None:
        ctx.violation(f"welltyped-rejected:{form}:{type(exc).__name__}", f"well-typed {form} raised {exc!r}", desc)
        return
    shape = tuple(arrays[0].shape)
    want_cls = {(1, "b"): BoolArray1D, (1, "i"): IntArray1D, (2, "b"): BoolArray2D, (2, "i"): IntArray2D}[(len(shape), res_kind)]
    if type(res) is not want_cls or tuple(res.shape) != shape:
        ctx.violation(f"result-class-or-shape:{form}", f"{form} returned {type(res).__name__}{getattr(res, 'shape', None)}, expected {want_cls.__name__}{shape}", desc)
        return
    n = len(res.data)
    if n == 0:
        ctx.count("c12.empty_shape")
    cols = [elems(o, n) for o in ops]
    try:
        for env in marray.assignments(pool.variables(), rng, k=10, cap=512):
            for i in range(n):
                got = ev(res.data[i], env)
                want = sem(*[ev(c[i], env) for c in cols])
                if got != want or type(got) is not type(want):
                    desc2 = dict(desc, index=i, got=got, want=want)
                    ctx.violation(f"denotation:{form}", f"{form}: element {i} denotes {got}, expected {want} (operand order as written)", desc2)
                    return
    except IllTyped as e:
        ctx.violation(f"illtyped-tree:{form}", f"{form} built an ill-typed tree: {e}", desc)
        return
    ctx.count("c12.ok_checked")


def shapes_all():
    return [(n,) for n in range(0, 6)] + [(h, w) for h in range(0, 5) for w in range(0, 5)] + [(11,), (6, 7), (1, 9), (9, 1), (5, 8)]


def operand_for(pool, rng, req, shape, mode):
    """mode: 'array' | 'arrayc' | 'scalar' | 'literal' | 'wrongkind-array' | 'wrongkind-scalar' | 'wrongshape' | 'wrongliteral'"""
    other = "i" if req == "b" else "b"
    if mode == "array":
        return pool.array(req, shape)
    if mode == "scalar":
        return pool.scalar(req)
    if mode == "literal":
        return pool.literal(req)
    if mode == "wrongkind-array":
        return pool.array(other, shape)
    if mode == "wrongkind-scalar":
        return pool.scalar(other)
    if mode == "wrongliteral":
        return pool.literal(other)
    if mode == "wrongshape":
        alt = [s for s in shapes_all() if s != tuple(shape)]
        # prefer near misses: same size different rank, transposed, off by one
        near = [s for s in alt if (len(s) != len(shape) and _size(s) == _size(shape)) or (len(s) == len(shape) == 2 and s == (shape[1], shape[0]))
                or (len(s) == len(shape) and sum(abs(a - b) for a, b in zip(s, shape)) == 1)]
        return pool.array(req, rng.choice(near or alt))
    raise ValueError(mode)


def _size(s):
    return s[0] if len(s) == 1 else s[0] * s[1]


def run(ctx):
    rng = ctx.rng
    marray.install(ctx)
    pool = Pool(rng)
    thorough = ctx.tier == "thorough"
    reps = 1 if not thorough else 8
    modes = ["array", "scalar", "literal", "wrongkind-array", "wrongkind-scalar", "wrongshape", "wrongliteral"]
    k = 0
    for shape in shapes_all():
        for form, (kinds_req, res_kind, fn, sem) in FORMS.items():
            k += 1
            if not ctx.mine(k):
                continue
            for _ in range(reps):
                ar = len(kinds_req)
                # which positions hold the (anchor) array; the others run through all modes
                for apos in range(ar):
                    for combo in itertools.product(modes, repeat=ar - 1):
                        ops = []
                        ci = 0
                        for p in range(ar):
                            if p == apos:
                                ops.append(pool.array(kinds_req[p], shape))
                            else:
                                ops.append(operand_for(pool, rng, kinds_req[p], shape, combo[ci]))
                                ci += 1
                        if form in ("then", "cond") and not isinstance(ops[0], Expr) and not isinstance(ops[0], (Array1D, Array2D)):
                            continue  # a Python literal has no .then/.cond
                        if form == "then" and isinstance(ops[0], BoolExpr) and isinstance(ops[1], (Array1D, Array2D)):
                            ctx.count("c12.form.scalar_then_array")
                        if form == "cond" and isinstance(ops[0], BoolExpr) and any(isinstance(o, (Array1D, Array2D)) for o in ops[1:]):
                            ctx.count("c12.form.scalar_cond_array")
                        if form == "sub" and apos == 1:
                            ctx.count("c12.form.rsub")
                        judge(ctx, pool, form, ops, "sweep")
                # scalar receiver with scalar operands of the wrong kind (then / cond on expressions)
                if form in ("then", "cond", "cthen", "ccond"):
                    for combo in itertools.product(["scalar", "wrongkind-scalar", "literal"], repeat=len(kinds_req)):
                        ops = [operand_for(pool, rng, kinds_req[p], shape, combo[p]) for p in range(len(kinds_req))]
                        if form in ("then", "cond") and not isinstance(ops[0], Expr):
                            continue
                        judge(ctx, pool, form, ops, "scalar")
    helpers(ctx, pool, rng, 40 if not thorough else 800)
    from .c13 import realistic_stage

    realistic_stage(ctx, thorough)
    ctx.sample({"form": "sub", "operands": ["li", "I[2, 3]"], "meaning": "element i = 5 - A[i]"})
    marray.uninstall()


def nest(pool, rng, kind, depth, allow_wrong=False):
    k = rng.random()
    if depth <= 0 or k < 0.35:
        t = rng.random()
        if t < 0.25:
            return pool.literal(kind)
        return pool.scalar(kind)
    m = rng.choice([0, 0, 1, 2, 3, 4])
    items = [nest(pool, rng, kind, depth - 1) for _ in range(m)]
    form = rng.choice(["list", "tuple", "gen", "arr1", "arr2"])
    if form == "list":
        return items
    if form == "tuple":
        return tuple(items)
    if form == "gen":
        return (x for x in items)
    if form == "arr1":
        return pool.array(kind, (rng.randint(0, 4),))
    return pool.array(kind, (rng.randint(0, 3), rng.randint(0, 3)))


def helpers(ctx, pool, rng, n):
    H = {"count_true": ("b", cspuz.count_true), "fold_or": ("b", cspuz.fold_or), "fold_and": ("b", cspuz.fold_and),
         "alldifferent": ("i", cspuz.alldifferent)}
    for t in range(n):
        for name, (kind, _) in H.items():
            fn = getattr(cspuz, name)  # the monitored binding
            nargs = rng.choice([1, 1, 2, 3])
            args = [nest(pool, rng, kind, 3) for _ in range(nargs)]
            if rng.random() < 0.08:
                args = []  # empty form
            if rng.random() < 0.08:
                args = [[pool.literal(kind) for _ in range(rng.randint(1, 4))]]  # constant-only form
            wrong = rng.random() < 0.15
            if wrong:
                other = "i" if kind == "b" else "b"
                args.append([pool.scalar(other)] if rng.random() < 0.5 else pool.array(other, (2,)))
            ctx.current_case = {"helper": name, "nargs": len(args), "wrong_kind_item": wrong}
            try:
                fn(*args)
                exc = None
            except Exception as e:
                exc = e
            ctx.case(["helper", name, len(args), wrong, t], nontrivial=True)
            if wrong:
                # the statement's rejection clause lists arithmetic/ordering/logical/then/cond forms, not the helpers
                # (fold_or legitimately stops at the first True literal): recorded, not judged
                ctx.count("c12.helper_wrong_kind_" + ("raised" if exc is not None else "accepted"))
            elif exc is not None:
                ctx.violation(f"welltyped-rejected:helper:{name}:{type(exc).__name__}", f"{name} raised {exc!r} on well-typed items", ctx.current_case)
        # array methods
        a1 = pool.array("b", (rng.randint(0, 5),))
        a2 = pool.array("b", (rng.randint(0, 4), rng.randint(0, 4)))
        for a in (a1, a2):
            a.fold_or(), a.fold_and(), a.count_true()
        pool.array("i", (rng.randint(0, 5),)).alldifferent()
        pool.array("i", (rng.randint(0, 3), rng.randint(0, 3))).alldifferent()
        hh, ww = rng.randint(0, 4), rng.randint(0, 4)
        b2 = pool.array("b", (hh, ww))
        b2.conv2d(rng.randint(1, 5), rng.randint(1, 5), rng.choice(["and", "or"]))
        i2 = pool.array("i", (max(hh, 1), max(ww, 1)))
        bb = pool.array("b", (max(hh, 1), max(ww, 1)))
        for y in range(max(hh, 1)):
            for x in range(max(ww, 1)):
                got = [i2.four_neighbors(y, x), bb.four_neighbors((y, x)), i2.four_neighbor_indices((y, x)), bb.four_neighbor_indices(y, x)]
                for g in got:  # a caller that edits what it was handed must not change later answers (second call is monitored too)
                    if isinstance(g, list):
                        if g and rng.random() < 0.5:
                            g.pop(rng.randrange(len(g)))
                        else:
                            g.append((y, x))
                i2.four_neighbors((y, x)), bb.four_neighbors(y, x), i2.four_neighbor_indices(y, x), bb.four_neighbor_indices((y, x))
        ctx.case(["methods", t], nontrivial=True)


def replay(w, ctx):
    print("C12 cases are regenerated from the seed; witness:", w)
