"""C05  division_connected <=> every label class connected (+ non-empty, roots).

Deciding method: the real function is executed with the labels fixed to every
labeling of small graphs / grids; Solver verdict (under M-SOLVE; primitive route
through the stand-in under M-WIRE) vs the definition."""
import itertools

import cspuz
from cspuz import graph
from cspuz.array import IntArray1D, IntArray2D

from ..monitors import msolve, mwire, standin
from ..refs import graphdefs as G
from ..workloads import graphdrv as D

RULE = ("all labelled graphs <= 4 vertices x num_regions 1..3 x all labelings in range x allow_empty on/off x roots (None, every single-root "
        "list, sampled full lists) x encoding (aux via z3, primitive via stand-in); grids h*w <= 6 exhaustively, 3x3 sampled (quick) / "
        "accepted-set (thorough); labels given as IntArray1D / plain list of expressions / constants / IntArray2D; "
        "one evaluation = one solve vs definition; distinct by (graph, labeling, flags, roots, form)")
ASSUMPTIONS = ["z3 decides the posted program correctly (SAT re-validated by M-SOLVE)",
               "labels outside 0..num_regions-1 are outside the statement and not generated"]
REQUIRED = ["div.kind.loops", "div.kind.linegraph", "div.kind.longroots", "div.roots_longer_than_num_regions", "div.winding_boards", "div.long_paths", "div.cases", "div.want.valid", "div.want.invalid", "div.roots", "div.allow_empty", "div.primitive", "div.grid",
            "div.form.list", "div.form.const", "div.form.array", "div.accepted_set_solves", "msolve.model_checked", "mwire.exchanges"]


def plan(tier):
    return {"shards": 16}


def one(ctx, n, edges, labels, k, allow_empty, roots, prim, form, be, grid=None, gobj=None):
    """One pointwise case.  form: 'array' | 'list' | 'const' | 'expr'."""
    s = cspuz.Solver()
    desc = {"n": n, "edges": [list(e) for e in edges], "grid": grid, "labels": list(labels), "k": k, "allow_empty": allow_empty,
            "roots": roots, "primitive": prim, "form": form}
    ctx.current_case = {"tag": "div", "desc": desc}
    if grid is None and gobj is None:
        edges = D.scramble(ctx.rng, edges)
        desc["edges"] = [list(e) for e in edges]
    vs = [s.int_var(0, k - 1) for _ in range(n)]
    pins = [v == lab for v, lab in zip(vs, labels)]
    if form == "const":
        div = list(labels)
        pins = []
    elif form == "expr":
        div = [(v + 1) - 1 for v in vs]
    else:
        div = vs
    try:
        if grid is not None:
            h, w = grid
            roots2 = None if roots is None else [None if r is None else (r // w, r % w) for r in roots]
            arr = IntArray2D(div, (h, w))
            if prim:
                # the public grid form has no use_graph_primitive argument: the flag comes from config
                old = cspuz.config.use_graph_primitive
                cspuz.config.use_graph_primitive = True
                try:
                    graph.division_connected(s, arr, k, roots=roots2, allow_empty_group=allow_empty)
                finally:
                    cspuz.config.use_graph_primitive = old
            else:
                graph.division_connected(s, arr, k, roots=roots2, allow_empty_group=allow_empty)
        else:
            g = gobj if gobj is not None else D.mk_graph(n, edges)
            d = IntArray1D(div) if form == "array" else div
            if prim:
                old = cspuz.config.use_graph_primitive
                cspuz.config.use_graph_primitive = True
                try:
                    graph.division_connected(s, d, k, g, roots=roots, allow_empty_group=allow_empty)
                finally:
                    cspuz.config.use_graph_primitive = old
            else:
                graph.division_connected(s, d, k, g, roots=roots, allow_empty_group=allow_empty)
    except Exception as e:
        ctx.violation(f"div:post-raises:{type(e).__name__}:{'prim' if prim else 'aux'}:{form}", f"division_connected raised {e!r}", ctx.current_case)
        return
    s.ensure(pins)
    res = D.solve_sat(ctx, s, be if prim else None)
    want = G.classes_connected(n, edges, labels, k, allow_empty, roots)
    ctx.count("div.cases")
    ctx.count("div.want." + ("valid" if want else "invalid"))
    ctx.count("div.form." + form)
    if roots is not None:
        ctx.count("div.roots")
    if allow_empty:
        ctx.count("div.allow_empty")
    if prim:
        ctx.count("div.primitive")
    if grid is not None:
        ctx.count("div.grid")
    ctx.case(["div", desc], nontrivial=True)
    if res is None:
        return
    if res != want:
        sub = "prim" if prim else "aux"
        ctx.violation(f"div:{'accepts-invalid' if res else 'rejects-valid'}:{sub}:{form}",
                      f"division_connected ({sub}, labels as {form}): satisfiable={res}, definition={want}", ctx.current_case)


def roots_choices(rng, n, k, labels, full):
    out = [None]
    for i in range(k):
        for r in range(n):
            if full or rng.random() < 0.5:
                rr = [None] * k
                rr[i] = r
                out.append(rr)
    for _ in range(3):
        out.append([rng.choice([None] + list(range(n))) for _ in range(k)])
    # a consistent full list (every root carries its label) when possible
    cons = []
    for i in range(k):
        c = [v for v in range(n) if labels[v] == i]
        cons.append(rng.choice(c) if c else None)
    out.append(cons)
    return out


def run(ctx):
    rng = ctx.rng
    msolve.install(ctx, owner="C01", brute_cap=256)
    mwire.install(ctx)
    be = standin.make("cspuz_core", standin.WireLog())
    thorough = ctx.tier == "thorough"
    work = []
    for n in range(1, 5):
        for edges in G.all_graphs(n):
            for k in (1, 2, 3):
                work.append(("g", n, edges, k, None))
    for h, w in D.grid_shapes(6):
        for k in (1, 2, 3):
            work.append(("g", h * w, G.grid_edges(h, w), k, (h, w)))
    ctx.exhaustive["all labelled graphs <=4 vertices and grids <=6 cells x k<=3 x all labelings x allow_empty (aux, roots=None)"] = True
    idx = 0
    for item in work:
        _, n, edges, k, grid = item
        for labels in itertools.product(range(k), repeat=n):
            idx += 1
            if not ctx.mine(idx):
                continue
            with ctx.guard(300):
                for allow in (False, True):
                    form = ["array", "list", "expr", "const"][idx % 4] if grid is None else ["array", "expr"][idx % 2]
                    one(ctx, n, edges, labels, k, allow, None, False, form, be, grid)
                if idx % 3 == 0 or thorough:
                    allow = bool(idx % 2)
                    for roots in roots_choices(rng, n, k, labels, full=thorough)[1:6 if not thorough else None]:
                        one(ctx, n, edges, labels, k, allow, roots, False, "array", be, grid)
                if idx % 4 == 0 or thorough:
                    # primitive route (list form excluded: see DESIGN.md, the primitive route needs an array)
                    roots = rng.choice(roots_choices(rng, n, k, labels, full=False))
                    one(ctx, n, edges, labels, k, bool(idx % 8 == 0), roots, True, "array", be, grid)
    # primitive route with a plain list of expressions (signature admits Sequence[IntExprLike])
    for t in range(4 if not thorough else 40):
        n = rng.randint(2, 4)
        edges = [e for e in itertools.combinations(range(n), 2) if rng.random() < 0.7]
        k = rng.randint(1, 2)
        labels = [rng.randrange(k) for _ in range(n)]
        one(ctx, n, edges, labels, k, rng.random() < 0.5, None, True, "list", be, None)
    # 3x3 grid: sampled labelings (quick) / accepted-set enumeration with 2 regions (thorough)
    h, w = 3, 3
    edges = G.grid_edges(h, w)
    for t in range(30 if not thorough else 400):
        k = rng.choice([2, 3])
        # grow regions from seeds so that valid labelings are frequent, then perturb one cell half of the time
        labels = [None] * 9
        seeds = rng.sample(range(9), k)
        for i, sd in enumerate(seeds):
            labels[sd] = i
        adj = G.adjacency(9, edges)
        while None in labels:
            v = rng.choice([x for x in range(9) if labels[x] is None and any(labels[y] is not None for y in adj[x])])
            labels[v] = labels[rng.choice([y for y in adj[v] if labels[y] is not None])]
        if rng.random() < 0.5:
            labels[rng.randrange(9)] = rng.randrange(k)
        with ctx.guard(300):
            one(ctx, 9, edges, labels, k, rng.random() < 0.3, rng.choice([None, [seeds[0]] + [None] * (k - 1)]), False, "array", be, (3, 3))
    # boards too large to enumerate: a long winding region (depth = length) plus the components it leaves, on 4x5 .. 7x7 boards,
    # and long path graphs rooted at one end (the spanning-forest ranks must reach n - 1); invalid variants by merging two classes
    # that do not touch / cutting the worm
    for t in range(3 if not thorough else 40):
        h, w = rng.choice([(4, 5), (5, 5), (5, 6), (6, 6), (3, 8), (7, 7), (2, 10)])
        wm = D.worm(rng, h, w)
        rest = D.components_of(h, w, {(y, x) for y in range(h) for x in range(w)} - set(wm))
        if len(rest) > 5:
            rest.sort(key=len)
            # too many classes for a quick solve: give the smallest leftovers to the worm's class only if they touch it, else skip
            continue
        k = 1 + len(rest)
        lab = {c: 0 for c in wm}
        for i, comp in enumerate(rest):
            for c in comp:
                lab[c] = i + 1
        labels = [lab[(y, x)] for y in range(h) for x in range(w)]
        edges = G.grid_edges(h, w)
        end = wm[0][0] * w + wm[0][1]
        variants = [("valid", labels, k, [end] + [None] * (k - 1)), ("valid", labels, k, None)]
        if len(wm) >= 5:
            cut = wm[len(wm) // 2]
            l2 = list(labels)
            l2[cut[0] * w + cut[1]] = k  # the middle cell becomes a class of its own: class 0 falls apart
            variants.append(("cut", l2, k + 1, None))
        if len(rest) >= 2:
            l3 = [1 if x == 2 else x for x in labels]
            variants.append(("merged", l3, k, None))  # class 2 empty (-> needs allow_empty) and class 1 maybe disconnected
        for what, ls, kk, roots in variants:
            with ctx.guard(300):
                one(ctx, h * w, edges, ls, kk, what == "merged", roots, False, "array", be, (h, w))
            ctx.count("div.winding_boards")
        if len(wm) - 1 >= 10:
            ctx.count("div.winding_depth_ge10")
    for t in range(2 if not thorough else 20):
        n = rng.randint(9, 18)
        order = list(range(n))
        rng.shuffle(order)
        edges = [(order[i], order[i + 1]) for i in range(n - 1)]
        with ctx.guard(300):
            one(ctx, n, edges, [0] * n, 1, False, [order[0]], False, "array", be, None)
            cutv = order[n // 2]
            one(ctx, n, edges, [1 if v == cutv else 0 for v in range(n)], 2, False, [order[-1], None], False, "list", be, None)
        ctx.count("div.long_paths")
    # self-loops (irrelevant for the connectivity of a class), Graph objects made by Graph.line_graph(), roots lists longer than
    # num_regions (a vertex listed at a position no label can take makes the constraint unsatisfiable; trailing None entries are inert)
    for t in range(8 if not thorough else 120):
        kind = ["loops", "linegraph", "longroots"][t % 3]
        gobj = None
        if kind == "linegraph":
            r = D.line_graph_object(rng)
            if r is None:
                ctx.count("div.line_graph_object_disagrees")
                continue
            gobj, n, edges = r
        else:
            n = rng.randint(2, 5)
            edges = [e for e in itertools.combinations(range(n), 2) if rng.random() < 0.6]
            if kind == "loops":
                edges = D.with_loops(rng, n, edges)
        k = rng.randint(1, 3)
        for _ in range(6):
            if rng.random() < 0.6:
                # grow k classes from seeds along the edges (valid labelings are frequent), else random
                adj = G.adjacency(n, [e for e in edges if e[0] != e[1]])
                labels = [None] * n
                for i, sd in enumerate(rng.sample(range(n), min(k, n))):
                    labels[sd] = i
                while None in labels:
                    cand = [x for x in range(n) if labels[x] is None and any(labels[y] is not None for y in adj[x])]
                    if not cand:
                        for x in range(n):
                            if labels[x] is None:
                                labels[x] = rng.randrange(k)
                        break
                    v = rng.choice(cand)
                    labels[v] = labels[rng.choice([y for y in adj[v] if labels[y] is not None])]
            else:
                labels = [rng.randrange(k) for _ in range(n)]
            roots = None
            if kind == "longroots" or rng.random() < 0.3:
                roots = [rng.choice([None, rng.randrange(n)]) for _ in range(k)]
                if kind == "longroots":
                    roots += [rng.choice([None, None, rng.randrange(n)]) for _ in range(rng.randint(1, 2))]
                    ctx.count("div.roots_longer_than_num_regions")
            with ctx.guard(120):
                one(ctx, n, edges, labels, k, rng.random() < 0.4, roots, False, rng.choice(["array", "list"]), be, None, gobj=gobj)
            ctx.count("div.kind." + kind)
    if thorough or ctx.shard == 0:
        for allow in (False, True):
            oset = {p for p in itertools.product(range(2), repeat=6) if G.classes_connected(6, G.grid_edges(2, 3), p, 2, allow)}
            D.accepted_set(ctx, "div", 6, lambda s, vs, allow=allow: graph.division_connected(s, IntArray2D(vs, (2, 3)), 2, allow_empty_group=allow),
                           oset, desc={"grid": [2, 3], "k": 2, "allow_empty": allow}, kind="int", dom=(0, 1))
    if thorough and ctx.shard < 2:
        allow = bool(ctx.shard)
        edges = G.grid_edges(3, 3)  # (the stages above re-use the name)
        oset = {p for p in itertools.product(range(2), repeat=9) if G.classes_connected(9, edges, p, 2, allow)}
        D.accepted_set(ctx, "div", 9, lambda s, vs: graph.division_connected(s, IntArray2D(vs, (3, 3)), 2, allow_empty_group=allow),
                       oset, desc={"grid": [3, 3], "k": 2, "allow_empty": allow}, kind="int", dom=(0, 1))
    ctx.sample({"n": 3, "edges": [[0, 1], [1, 2]], "labels": [0, 1, 0], "k": 2, "definition": False})
    mwire.uninstall()
    msolve.uninstall()


def replay(w, ctx):
    msolve.install(ctx, owner="C01", brute_cap=256)
    mwire.install(ctx)
    be = standin.make("cspuz_core", standin.WireLog())
    d = w["desc"]
    one(ctx, d["n"], [tuple(e) for e in d["edges"]], d["labels"], d["k"], d["allow_empty"], d["roots"], d["primitive"], d["form"], be,
        tuple(d["grid"]) if d.get("grid") else None)
