"""C13  Array indexing and slicing follow Python nested-list semantics.

Deciding method: M-INDEX (runtime monitor on the real __getitem__ / flatten /
reshape) replays every call on the equivalent list of lists; the workload is a
small-scope exhaustive sweep of keys plus huge-bound and random keys."""
import itertools

import cspuz
from cspuz.array import BoolArray1D, BoolArray2D, IntArray1D, IntArray2D

from ..monitors import mindex

RULE = ("axis sizes 0..5; start, stop in {None, -7..7}; step in {None, +-1, +-2, +-3, +-7}; integer indices -7..7; on 1D arrays and on both "
        "axes of 2D arrays (full product of row-key x column-key for shapes <= 3x3 in quick / <= 4x4 in thorough, row-key x sampled column keys "
        "beyond); coordinate lists of length <= 3 over in/out-of-range pairs; plus bounds +-10^9 / +-2^63 and random keys; "
        "one evaluation = one __getitem__ call judged by the list model; distinct by (class, shape, key); a case is non-trivial when the "
        "model judged it (step 0 and 'no row selected + column out of range' are recorded as unjudged)")
ASSUMPTIONS = ["Python's built-in list indexing is the specification", "arrays are built over fresh variables; identity (is) of elements is compared"]
REQUIRED = ["mindex.getitem2d", "mindex.getitem1d", "mindex.flatten", "mindex.reshape", "mindex.model_indexerror", "c13.neg_step_keys",
            "c13.coordinate_lists", "c13.huge_bounds", "c13.empty_arrays", "c13.constructors", "c13.history_checked"]


def plan(tier):
    return {"shards": 16}


def axis_keys(full=True):
    vals = [None] + list(range(-7, 8))
    steps = [None, 1, -1, 2, -2, 3, -3, 7, -7]
    keys = list(range(-7, 8))
    for a in vals:
        for b in vals:
            for c in steps:
                keys.append(slice(a, b, c))
    return keys


def try_get(ctx, st, arr, key):
    ctx.evaluations += 0
    try:
        arr[key]
    except Exception:
        pass


def run(ctx):
    rng = ctx.rng
    st = mindex.install(ctx)
    thorough = ctx.tier == "thorough"
    s = cspuz.Solver()
    keys = axis_keys()
    nneg = sum(1 for k in keys if isinstance(k, slice) and k.step is not None and k.step < 0)
    work = []
    for n in range(0, 6):
        work.append(("1d", n))
    for h in range(0, 6):
        for w in range(0, 6):
            work.append(("2d", h, w))
    ctx.exhaustive["1D: sizes 0..5 x all keys of the box; 2D: shapes 0..5 x 0..5, every row key and every column key with the full product "
                   "for small shapes"] = True
    widx = 0
    for item in work:
        if item[0] == "1d":
            n = item[1]
            for cls, mk in ((BoolArray1D, lambda: s.bool_array(n)), (IntArray1D, lambda: s.int_array(n, 0, 3))):
                widx += 1
                if not ctx.mine(widx):
                    continue
                arr = mk()
                if n == 0:
                    ctx.count("c13.empty_arrays")
                for k in keys:
                    try_get(ctx, st, arr, k)
                    ctx.case(["1d", cls.__name__, n, mindex.describe_key(k)], nontrivial=True)
                ctx.count("c13.neg_step_keys", nneg)
                if n > 0:
                    for sh in [(1, n), (n, 1)] + ([(2, n // 2)] if n % 2 == 0 else []):
                        arr.reshape(sh)
        else:
            _, h, w = item
            full_limit = 4 if thorough else 3
            for cls, mk in ((BoolArray2D, lambda: s.bool_array((h, w))), (IntArray2D, lambda: s.int_array((h, w), 0, 3))):
                widx += 1
                if not ctx.mine(widx):
                    continue
                arr = mk()
                if h * w == 0:
                    ctx.count("c13.empty_arrays")
                arr.flatten()
                if h * w > 0:
                    arr.reshape((w, h))
                    arr.flatten().reshape((h, w))
                for k in keys:
                    try_get(ctx, st, arr, k)  # single key: rows
                    ctx.case(["2d", cls.__name__, h, w, mindex.describe_key(k)], nontrivial=st.last_verdict == "judged")
                if max(h, w) <= full_limit:
                    colkeys = keys
                else:
                    colkeys = rng.sample(keys, 60 if not thorough else 400)
                # full product is large (2320^2): rows x sampled columns + sampled rows x all columns
                rowkeys = keys if max(h, w) <= full_limit else rng.sample(keys, 60 if not thorough else 400)
                if max(h, w) <= full_limit:
                    sub_r = rng.sample(keys, 50 if not thorough else 500)
                    pairs = itertools.chain(((a, b) for a in sub_r for b in keys), ((a, b) for a in keys for b in rng.sample(keys, 15 if not thorough else 60)))
                else:
                    pairs = ((a, b) for a in rowkeys for b in colkeys)
                for a, b in pairs:
                    try_get(ctx, st, arr, (a, b))
                    ctx.case(["2d", cls.__name__, h, w, mindex.describe_key((a, b))], nontrivial=st.last_verdict == "judged")
                    if (isinstance(a, slice) and (a.step or 1) < 0) or (isinstance(b, slice) and (b.step or 1) < 0):
                        ctx.count("c13.neg_step_keys")
                # coordinate lists
                coords = [(y, x) for y in range(-h - 1, h + 1) for x in range(-w - 1, w + 1)]
                for L in range(0, 4):
                    for _ in range(12 if not thorough else 60):
                        lst = [rng.choice(coords) for _ in range(L)] if coords else []
                        form = rng.choice(["list", "gen"])
                        try_get(ctx, st, arr, lst if form == "list" else (c for c in lst))
                        ctx.case(["2d", cls.__name__, h, w, "coords", lst], nontrivial=True)
                        ctx.count("c13.coordinate_lists")
                # huge bounds
                for _ in range(40):
                    big = [10 ** 9, -10 ** 9, 2 ** 63, -2 ** 63, 2 ** 31 - 1, None, 0, 1, -1]
                    k = (slice(rng.choice(big), rng.choice(big), rng.choice([None, 1, -1, 2, -3, 10 ** 9, -2 ** 63])),
                         rng.choice([slice(rng.choice(big), rng.choice(big), rng.choice([None, 1, -1, -2])), rng.randint(-w - 1, w)]))
                    if rng.random() < 0.5:
                        k = (k[1], k[0])
                    try_get(ctx, st, arr, k)
                    ctx.case(["2d", cls.__name__, h, w, mindex.describe_key(k)], nontrivial=st.last_verdict == "judged")
                    ctx.count("c13.huge_bounds")
    # larger shapes, sampled keys (the code has no size-dependent case, a change could introduce one)
    big = [(6, 9), (9, 6), (7, 7), (1, 13), (13, 1), (8, 10), (16, 17), (33, 2)]
    for k, (h, w) in enumerate(big):
        if not ctx.mine(k):
            continue
        for arr in (s.bool_array((h, w)), s.int_array((h, w), 0, 1)):
            arr.flatten()
            arr.reshape((w, h))
            m = max(h, w) + 3
            for _ in range(1500 if not thorough else 20000):
                def comp(n):
                    if rng.random() < 0.35:
                        return rng.randint(-n - 2, n + 1)
                    return slice(rng.choice([None, rng.randint(-m, m)]), rng.choice([None, rng.randint(-m, m)]),
                                 rng.choice([None, 1, -1, 2, -2, 3, -3, 5, -7, m, -m]))
                key = (comp(h), comp(w)) if rng.random() < 0.8 else comp(h)
                try_get(ctx, st, arr, key)
                ctx.case(["2d-big", type(arr).__name__, h, w, mindex.describe_key(key)], nontrivial=st.last_verdict == "judged")
            for _ in range(60):
                lst = [(rng.randint(-h - 1, h), rng.randint(-w - 1, w)) for _ in range(rng.randint(0, 5))]
                try_get(ctx, st, arr, lst)
            ctx.count("c13.big_shapes")
    for n in (9, 17, 40):
        a1 = s.bool_array(n)
        for _ in range(300):
            try_get(ctx, st, a1, slice(rng.choice([None, rng.randint(-n - 3, n + 3)]), rng.choice([None, rng.randint(-n - 3, n + 3)]), rng.choice([None, 1, -1, 2, -3, 7])))
            try_get(ctx, st, a1, rng.randint(-n - 2, n + 1))
    constructors(ctx, s, rng)
    histories(ctx, s, rng)
    realistic_stage(ctx, thorough)
    ctx.sample({"shape": [2, 4], "key": ["tuple", 0, ["slice", 10, None, -1]], "list_model": "row 0 reversed"})
    ctx.sample({"shape": [3, 3], "key": ["tuple", ["slice", None, None, -2], -1]})
    mindex.uninstall()


def constructors(ctx, s, rng):
    """The 'equivalent Python list of lists' of an array built from nested lists IS that nested list; of an array built from
    flat data + shape it is the row-major folding."""
    for h in range(1, 6):
        for w in range(0, 6):
            for kind in ("b", "i"):
                nested = [[(s.bool_var() if kind == "b" else s.int_var(0, 1)) for _ in range(w)] for _ in range(h)]
                cls2 = BoolArray2D if kind == "b" else IntArray2D
                cls1 = BoolArray1D if kind == "b" else IntArray1D
                flat = [v for r in nested for v in r]
                for how, arr in (("nested", cls2(nested)), ("nested-tuples", cls2(tuple(tuple(r) for r in nested))),
                                 ("nested-generators", cls2((x for x in r) for r in nested)), ("flat+shape", cls2(flat, (h, w))),
                                 ("flat-generator+shape", cls2((x for x in flat), (h, w))), ("reshape", cls1(flat).reshape((h, w)))):
                    ctx.count("c13.constructors")
                    ctx.case(["ctor", how, kind, h, w], nontrivial=True)
                    ok = tuple(arr.shape) == (h, w) and all(arr[y, x] is nested[y][x] for y in range(h) for x in range(w)) \
                        and [v for v in arr.flatten()] == flat if w > 0 else tuple(arr.shape) == (h, 0)
                    if not ok:
                        ctx.violation(f"constructor:{how}", f"array built by {how} from a {h}x{w} nested list does not index like that list",
                                      {"how": how, "kind": kind, "shape": [h, w]})
                a1 = cls1(flat)
                if [a1[i] for i in range(len(flat))] != flat or len(a1) != len(flat):
                    ctx.violation("constructor:1d", "1D array does not index like the list it was built from", {"kind": kind, "n": len(flat)})


def _ideq(a, b):
    a, b = list(a), list(b)
    return len(a) == len(b) and all(x is y for x, y in zip(a, b))


def _same(arr, want_rows):
    """arr (1D or 2D) indexes like the snapshot `want_rows` (list or list of lists) that the HARNESS holds"""
    if want_rows and isinstance(want_rows[0], list) or (len(arr.shape) == 2):
        h = len(want_rows)
        w = len(want_rows[0]) if h else 0
        if tuple(arr.shape) != (h, w) and not (w == 0 and arr.shape[0] == h):
            return False
        if any(arr[y, x] is not want_rows[y][x] for y in range(h) for x in range(w)):
            return False
        for (y, x) in ((h, 0), (0, w), (-h - 1, 0), (0, -w - 1)):
            if w == 0:
                continue
            try:
                arr[y, x]
                return False
            except IndexError:
                pass
        return _ideq(arr.flatten(), [v for r in want_rows for v in r]) if w else True
    n = len(want_rows)
    if tuple(arr.shape) != (n,) or len(arr) != n or not _ideq(arr, want_rows):
        return False
    if any(arr[i] is not want_rows[i] or arr[i - n] is not want_rows[i] for i in range(n)):
        return False
    for k in (n, -n - 1):
        try:
            arr[k]
            return False
        except IndexError:
            pass
    sl = arr[::-1]
    return _ideq(sl, want_rows[::-1]) and _ideq(arr[1:], want_rows[1:])


def histories(ctx, s, rng):
    """Indexing must follow the list the array was built from - also after the caller goes on using (editing) that list, and after
    the array has been an operand of constructors, slices, flatten/reshape and elementwise operators.  The snapshots are the
    harness's own lists, never the arrays' bookkeeping."""
    from cspuz import count_true, fold_or
    for rep in range(60):
        kind = rng.choice("bi")
        cls2 = BoolArray2D if kind == "b" else IntArray2D
        cls1 = BoolArray1D if kind == "b" else IntArray1D
        mkv = (lambda: s.bool_var()) if kind == "b" else (lambda: s.int_var(0, 3))
        h, w = rng.randint(1, 4), rng.randint(1, 4)
        ctx.case(["history", kind, h, w, rep], nontrivial=True)
        book = []  # (label, array, snapshot)

        def edit(lst):
            op = rng.randrange(4)
            if op == 0:
                lst.append(mkv())
            elif op == 1:
                lst.reverse()
            elif op == 2:
                lst.clear()
            else:
                lst[:] = [mkv() for _ in lst]

        # 1. arrays from lists the caller then edits
        src = [mkv() for _ in range(w * h)]
        a1 = cls1(src)
        book.append(("1d-from-list", a1, list(src)))
        snap = list(src)
        edit(src)
        nested = [[mkv() for _ in range(w)] for _ in range(h)]
        snap2 = [list(r) for r in nested]
        a2 = cls2(nested)
        book.append(("2d-from-nested", a2, snap2))
        flat = [v for r in snap2 for v in r]
        a3 = cls2(flat, (h, w))
        book.append(("2d-from-flat", a3, [list(r) for r in snap2]))
        edit(flat)
        for r in nested:
            edit(r)
        edit(nested)
        # 2. arrays built from other arrays: rows, slices, stacked rows
        rows = [cls1([mkv() for _ in range(w)]) for _ in range(h)]
        rsnap = [[v for v in r.data] for r in rows]  # taken right at construction from fresh lists
        for i, r in enumerate(rows):
            book.append((f"row{i}", r, list(rsnap[i])))
        st1 = cls2(rows)
        book.append(("stacked-rows", st1, [list(r) for r in rsnap]))
        st2 = cls2([a2[y] for y in range(h)]) if w else None
        if st2 is not None:
            book.append(("restacked-index-rows", st2, [list(r) for r in snap2]))
            st3 = cls2([a2[y, :] for y in range(h - 1, -1, -1)])
            book.append(("restacked-reversed", st3, [list(r) for r in snap2[::-1]]))
            col = a2[:, 0]
            book.append(("column", col, [r[0] for r in snap2]))
            st4 = cls2([col, col])
            book.append(("stacked-columns", st4, [[r[0] for r in snap2]] * 2))
        fl = a2.flatten()
        book.append(("flatten", fl, [v for r in snap2 for v in r]))
        if h * w:
            rs = fl.reshape((w, h))
            fsn = [v for r in snap2 for v in r]
            book.append(("reshape", rs, [fsn[i * h:(i + 1) * h] for i in range(w)]))
        # 3. use them as operands (results discarded: operators must not disturb their operands)
        for _, arr, _ in list(book):
            try:
                if kind == "b":
                    (~arr, arr | arr, fold_or(arr), count_true(arr), arr.fold_and())
                else:
                    (arr + 1, arr == arr, arr.alldifferent() if hasattr(arr, "alldifferent") else None)
            except Exception:
                pass
        list(iter(a1)), list(iter(fl))
        # 4. everything still indexes like its snapshot
        for label, arr, want in book:
            ctx.count("c13.history_checked")
            try:
                ok = _same(arr, want)
            except Exception as e:
                ctx.violation(f"history:{label.rstrip('0123456789')}:raises:{type(e).__name__}", f"indexing {label} raised {e!r} after later use",
                              {"kind": kind, "shape": [h, w], "label": label})
                continue
            if not ok:
                ctx.violation(f"history:{label.rstrip('0123456789')}", f"{label} no longer indexes like the list it was built from, after the caller's "
                              "list was edited / the array was used as an operand", {"kind": kind, "shape": [h, w], "label": label})
        assert snap is not None


def realistic_stage(ctx, thorough):
    """the repository's own tests and the puzzle modules' examples, executed under the monitor"""
    from ..workloads import realistic

    if ctx.shard == ctx.nshards - 1:
        realistic.run_repo_tests(ctx)
    if thorough:
        realistic.run_puzzle_examples(ctx, 1500, only=lambda k: k % ctx.nshards == ctx.shard)


def replay(w, ctx):
    st = mindex.install(ctx)
    s = cspuz.Solver()

    def mk(k):
        if isinstance(k, list) and k and k[0] == "slice":
            return slice(k[1], k[2], k[3])
        if isinstance(k, list) and k and k[0] == "tuple":
            return tuple(mk(t) for t in k[1:])
        if isinstance(k, list) and k and k[0] == "list":
            return [mk(t) for t in k[1:]]
        return k

    shape = w["shape"]
    boolish = w["class"].startswith("Bool")
    if len(shape) == 1:
        arr = s.bool_array(shape[0]) if boolish else s.int_array(shape[0], 0, 1)
    else:
        arr = s.bool_array(tuple(shape)) if boolish else s.int_array(tuple(shape), 0, 1)
    try:
        r = arr[mk(w["key"])]
        print("result:", getattr(r, "shape", None), [getattr(x, "id", x) for x in getattr(r, "data", [r])])
    except Exception as e:
        print("raised", repr(e))
