"""C08  not_adjacent / not_adjacent_and_not_segmenting match their definitions.

Deciding method:
 * not_adjacent adds no hidden variable, so every clause the real function posts
   is evaluated by ref_eval under each full pattern (no solver) and compared with
   'no edge has both ends active'; plus the find_answer route;
 * not_segmenting: the real grid encoding, the real explicit-graph form on the
   grid graph, and the definition are compared pattern by pattern (pointwise and
   by accepted-set enumeration)."""
import cspuz
from cspuz import graph
from cspuz.array import BoolArray1D, BoolArray2D

from ..monitors import msolve
from ..refs import graphdefs as G
from ..refs.ref_eval import ev
from ..workloads import graphdrv as D

RULE = ("not_adjacent: all labelled graphs <= 5 vertices and all grids h*w <= 12 (incl. 1xN, Nx1) x all patterns, each posted clause "
        "evaluated by the reference evaluator; not_segmenting: all grids h*w <= 9 pointwise (grid encoding AND explicit-graph form) and "
        "<= 12 (quick) / <= 20 (thorough) by accepted-set enumeration, all graphs <= 4 vertices for the explicit form; "
        "one evaluation = one pattern judged; distinct by (function, graph/shape, pattern, encoding)")
ASSUMPTIONS = ["z3 decides the posted aux-variable program correctly (SAT answers re-validated by M-SOLVE)",
               "definition of 'not segmenting': inactive vertices induce a connected subgraph (no inactive vertex counts as connected)"]
REQUIRED = ["nadj.eval_patterns", "nadj.grid", "nadj.graph", "nseg.pointwise", "nseg.oracle.valid", "nseg.oracle.invalid",
            "nseg.single_row_or_column", "nseg.accepted_set_solves", "nsegg.pointwise", "nadj.pointwise", "nseg.big_boards", "nseg.big_valid_chain_depth3plus", "nadj.graphs_with_self_loops",
            "nadj.line_graph_objects"]


def plan(tier):
    return {"shards": 16}


def nseg_def(n, edges):
    return lambda p: G.no_adjacent(n, edges, p) and G.induced_connected(n, edges, [not x for x in p])


def not_adjacent_eval(ctx, n, edges, post, desc):
    """No hidden variables: evaluate the posted clauses directly under every pattern."""
    s = cspuz.Solver()
    vs = [s.bool_var() for _ in range(n)]
    post(s, vs)
    if len(s.variables) != n:
        ctx.violation("nadj:hidden-variables", "active_vertices_not_adjacent declared extra variables", desc)
        return
    for p in D.all_patterns(n):
        env = {v.id: bool(x) for v, x in zip(vs, p)}
        got = all(ev(c, env) for c in s.constraints)
        want = G.no_adjacent(n, edges, p)
        ctx.count("nadj.eval_patterns")
        ctx.case(["nadj", desc, list(p)], nontrivial=True)
        if got != want:
            ctx.violation("nadj:accepts-invalid" if got else "nadj:rejects-valid",
                          f"not_adjacent clauses evaluate to {got} but definition says {want}", {"desc": desc, "pattern": list(p)})
            return


def _free(cells, h, w, y, x):
    return 0 <= y < h and 0 <= x < w and (y, x) not in cells and not any((y + dy, x + dx) in cells for dy, dx in ((1, 0), (-1, 0), (0, 1), (0, -1)))


def big_patterns(rng, h, w, k, ora=None):
    out = []
    for i in range(k):
        cells = set()
        order = []
        mode = i % 4
        nchains = 1 if mode == 0 else rng.randint(1, 3)
        for _ in range(nchains):
            if rng.random() < 0.6:  # start on the border
                y, x = rng.choice([(0, rng.randrange(w)), (h - 1, rng.randrange(w)), (rng.randrange(h), 0), (rng.randrange(h), w - 1)])
            else:
                y, x = rng.randrange(h), rng.randrange(w)
            if not _free(cells, h, w, y, x):
                continue
            cells.add((y, x))
            order.append((y, x))
            touched = y in (0, h - 1) or x in (0, w - 1)
            d = rng.choice([(1, 1), (1, -1), (-1, 1), (-1, -1)])
            for _ in range(rng.randint(2, h + w)):
                if rng.random() < 0.5:  # zigzag: flip one component
                    d = (d[0], -d[1]) if rng.random() < 0.5 else (-d[0], d[1])
                ny, nx = y + d[0], x + d[1]
                if not _free(cells, h, w, ny, nx):
                    d = (-d[0], d[1])
                    ny, nx = y + d[0], x + d[1]
                    if not _free(cells, h, w, ny, nx):
                        break
                onb = ny in (0, h - 1) or nx in (0, w - 1)
                if mode != 3 and onb and touched and rng.random() < 0.8:
                    continue  # mostly avoid reaching the border a second time (keeps the pattern non-segmenting); try another turn
                touched = touched or onb
                cells.add((ny, nx))
                order.append((ny, nx))
                y, x = ny, nx
        pat = lambda: tuple(1 if (y, x) in cells else 0 for y in range(h) for x in range(w))
        if ora is not None and i % 2 == 0:  # keep the longest prefix of the walk that the definition accepts: deep VALID chains
            while order and not ora(pat()):
                cells.discard(order.pop())
        if mode == 2:  # sprinkle isolated cells
            for _ in range(rng.randint(0, 3)):
                y, x = rng.randrange(h), rng.randrange(w)
                if _free(cells, h, w, y, x):
                    cells.add((y, x))
        if i % 9 == 8 and cells:  # an adjacency somewhere
            y, x = rng.choice(sorted(cells))
            cells.add((min(y + 1, h - 1), x))
        out.append(tuple(1 if (y, x) in cells else 0 for y in range(h) for x in range(w)))
    return out


def chain_depth(h, w, p):
    """max over diagonal-connected groups of active cells of the eccentricity-from-border (or radius) - observation only"""
    act = {(y, x) for y in range(h) for x in range(w) if p[y * w + x]}
    seen, best = set(), 0
    for c in sorted(act):
        if c in seen:
            continue
        comp, st = {c}, [c]
        while st:
            y, x = st.pop()
            for dy, dx in ((1, 1), (1, -1), (-1, 1), (-1, -1)):
                q = (y + dy, x + dx)
                if q in act and q not in comp:
                    comp.add(q)
                    st.append(q)
        seen |= comp
        roots = [q for q in comp if q[0] in (0, h - 1) or q[1] in (0, w - 1)] or list(comp)
        def ecc(r):
            dist, fr = {r: 0}, [r]
            while fr:
                nx = []
                for y, x in fr:
                    for dy, dx in ((1, 1), (1, -1), (-1, 1), (-1, -1)):
                        q = (y + dy, x + dx)
                        if q in comp and q not in dist:
                            dist[q] = dist[(y, x)] + 1
                            nx.append(q)
                fr = nx
            return max(dist.values())
        best = max(best, min(ecc(r) for r in roots))
    return best


def run(ctx):
    rng = ctx.rng
    msolve.install(ctx, owner="C01", brute_cap=256)
    thorough = ctx.tier == "thorough"
    work = []
    for n in range(1, 6):
        for edges in G.all_graphs(n):
            work.append(("nadj-graph", n, edges))
    for h, w in D.grid_shapes(12):
        work.append(("nadj-grid", h, w))
    for h, w in D.grid_shapes(9):
        work.append(("nseg-pw", h, w))
    for h, w in D.grid_shapes(20 if thorough else 12):
        work.append(("nseg-as", h, w))
    for n in range(1, 5):
        for edges in G.all_graphs(n):
            work.append(("nsegg", n, edges))
    big = [(4, 5), (5, 4), (5, 5), (4, 6), (6, 4), (5, 6), (6, 6), (4, 7), (7, 4), (3, 8), (2, 9), (7, 7), (6, 8)] + ([(8, 8), (5, 10), (9, 9)] if thorough else [])
    for h, w in big:
        for part in range(4 if thorough else 2):
            work.append(("nseg-big", h, w, part))
    ctx.exhaustive["not_adjacent: all labelled graphs <=5 vertices, all grids <=12 cells, all patterns"] = True
    ctx.exhaustive["not_segmenting: all grids <=9 cells pointwise, both encodings"] = True
    for k, item in enumerate(work):
        if not ctx.mine(k):
            continue
        kind = item[0]
        with ctx.guard(900 if not thorough else 3600):  # the 20-cell accepted-set items take ~15 min on an idle machine
            if kind == "nadj-graph":
                _, n, edges = item
                g = D.mk_graph(n, edges)
                desc = {"fn": "not_adjacent", "n": n, "edges": [list(e) for e in edges]}
                arr = k % 2 == 0
                not_adjacent_eval(ctx, n, edges, lambda s, vs: graph.active_vertices_not_adjacent(s, BoolArray1D(vs) if arr else vs, g), desc)
                ctx.count("nadj.graph")
                if n <= 3:
                    D.pointwise(ctx, "nadj", n, lambda s, act: graph.active_vertices_not_adjacent(s, act, g),
                                lambda p: G.no_adjacent(n, edges, p), D.all_patterns(n), forms=("var", "neg", "expr", "mixed-nc"), desc=desc, rng=rng)
            elif kind == "nadj-grid":
                _, h, w = item
                n, edges = h * w, G.grid_edges(h, w)
                desc = {"fn": "not_adjacent", "grid": [h, w]}
                not_adjacent_eval(ctx, n, edges, lambda s, vs: graph.active_vertices_not_adjacent(s, BoolArray2D(vs, (h, w))), desc)
                ctx.count("nadj.grid")
                if n <= 6:
                    D.pointwise(ctx, "nadj", n, lambda s, act: graph.active_vertices_not_adjacent(s, BoolArray2D(act, (h, w))),
                                lambda p: G.no_adjacent(n, edges, p), D.all_patterns(n), forms=("var", "neg"), desc=desc, rng=rng)
            elif kind == "nseg-pw":
                _, h, w = item
                n, edges = h * w, G.grid_edges(h, w)
                g = D.mk_graph(n, edges)
                ora = nseg_def(n, edges)
                desc = {"fn": "not_segmenting", "grid": [h, w]}
                D.pointwise(ctx, "nseg", n, lambda s, act: graph.active_vertices_not_adjacent_and_not_segmenting(s, BoolArray2D(act, (h, w))),
                            ora, D.all_patterns(n), forms=("var",) if n > 6 else ("var", "neg", "expr"), desc=desc, rng=rng)
                # the explicit-graph form on the corresponding grid graph must accept exactly the same patterns
                D.pointwise(ctx, "nsegg", n, lambda s, act: graph.active_vertices_not_adjacent_and_not_segmenting(s, BoolArray1D(act), g),
                            ora, D.all_patterns(n), forms=("var",), desc={"fn": "not_segmenting-graph-form", "grid": [h, w]}, rng=rng)
                if h == 1 or w == 1:
                    ctx.count("nseg.single_row_or_column")
            elif kind == "nseg-as":
                _, h, w = item
                n, edges = h * w, G.grid_edges(h, w)
                ora = nseg_def(n, edges)
                oset = {p for p in D.all_patterns(n) if ora(p)}
                D.accepted_set(ctx, "nseg", n, lambda s, vs: graph.active_vertices_not_adjacent_and_not_segmenting(s, BoolArray2D(vs, (h, w))),
                               oset, desc={"fn": "not_segmenting", "grid": [h, w]}, cap=100000)
                if h == 1 or w == 1:
                    ctx.count("nseg.single_row_or_column")
            elif kind == "nseg-big":
                # boards too large to enumerate: sampled patterns, rich in long diagonal chains (the shapes whose depth the rank
                # bound of the grid encoding must cover), judged pointwise against the definition
                _, h, w, part = item
                n, edges = h * w, G.grid_edges(h, w)
                ora = nseg_def(n, edges)
                pats = big_patterns(rng, h, w, 60 if thorough else 28, ora)
                ctx.count("nseg.big_boards")
                ctx.count("nseg.big_valid_chain_depth3plus", sum(1 for p in pats if ora(p) and chain_depth(h, w, p) >= 3))
                D.pointwise(ctx, "nseg", n, lambda s, act: graph.active_vertices_not_adjacent_and_not_segmenting(s, BoolArray2D(act, (h, w))),
                            ora, pats, forms=("var",), desc={"fn": "not_segmenting", "grid": [h, w], "sampled": True}, rng=rng)
            else:
                _, n, edges = item
                g = D.mk_graph(n, edges)
                D.pointwise(ctx, "nsegg", n, lambda s, act: graph.active_vertices_not_adjacent_and_not_segmenting(s, BoolArray1D(act), g),
                            nseg_def(n, edges), D.all_patterns(n), forms=("var", "neg"),
                            desc={"fn": "not_segmenting", "n": n, "edges": [list(e) for e in edges]}, rng=rng)
    # graphs with self-loops (a looped vertex can never be active: its loop would have both endpoints active) and Graph objects
    # produced by Graph.line_graph()
    for t in range(6 if not thorough else 100):
        if t % 2 == 0:
            n = rng.randint(1, 5)
            base = [e for e in ((u, v) for u in range(n) for v in range(u + 1, n)) if rng.random() < 0.5]
            edges = D.with_loops(rng, n, base)
            g = D.mk_graph(n, edges)
            ctx.count("nadj.graphs_with_self_loops")
            desc = {"fn": "not_adjacent", "n": n, "edges": [list(e) for e in edges], "self_loops": True}
        else:
            r = D.line_graph_object(rng)
            if r is None:
                ctx.count("nadj.line_graph_object_disagrees")
                continue
            g, n, edges = r
            ctx.count("nadj.line_graph_objects")
            desc = {"fn": "not_adjacent", "n": n, "edges": [list(e) for e in edges], "from_line_graph": True}
        with ctx.guard(300):
            not_adjacent_eval(ctx, n, edges, lambda s, vs, g=g: graph.active_vertices_not_adjacent(s, vs, g), desc)
            D.pointwise(ctx, "nsegg", n, lambda s, act, g=g: graph.active_vertices_not_adjacent_and_not_segmenting(s, BoolArray1D(act), g),
                        nseg_def(n, edges), D.all_patterns(n), forms=("var",), desc=dict(desc, fn="not_segmenting"), rng=rng)
    ctx.sample({"fn": "not_segmenting", "grid": [3, 3], "pattern": [1, 0, 0, 0, 1, 0, 0, 0, 1], "definition": False})
    msolve.uninstall()


def replay(w, ctx):
    msolve.install(ctx, owner="C01", brute_cap=256)
    d = w.get("desc", w)
    pats = [tuple(w["pattern"])] if w.get("pattern") else None
    if "grid" in d:
        h, wd = d["grid"]
        n, edges = h * wd, G.grid_edges(h, wd)
        D.pointwise(ctx, "nseg", n, lambda s, act: graph.active_vertices_not_adjacent_and_not_segmenting(s, BoolArray2D(act, (h, wd))),
                    nseg_def(n, edges), pats or D.all_patterns(n), forms=("var",), desc=d, rng=ctx.rng)
