"""C19  Problem generation is sound and reproducible under the deterministic PRNG.

Deciding method (M-GEN): the real generate_problem runs with recording wrappers
around the solver / uniqueness / pretest callbacks, around the neighbour
generator it builds and around every srandom / deterministic_random draw.  The
recorded history is judged: soundness of the returned problem, the neighbour
law (single builder, choice set, symmetry, adjacency), purity of every problem
ever produced, bit-for-bit reproducibility across repetitions with different
global-random state and extensionally equal solver callbacks, and the exact
acceptance/rejection arithmetic of randint / choice / shuffle / random under a
scripted entropy source (plus support / chi-square on the real stream)."""
import copy
import functools
import math
import random as pyrandom

import cspuz
import cspuz.generator.builder as GB
import cspuz.generator.core as GC
import cspuz.generator.deterministic_random as DR
import cspuz.generator.srandom as SR
from cspuz.expr import BoolVar
from cspuz.generator import ArrayBuilder2D, Choice, SegmentationBuilder2D, generate_problem

from ..monitors import mseg

RULE = ("generate_problem runs over builder patterns (Choice; ArrayBuilder2D x symmetry x disallow_adjacent (True / symmetric offset lists) x "
        "use_move x initial; nested lists/tuples of builders; SegmentationBuilder2D; tuple of segmentation + clue arrays) x scripted solver "
        "callbacks (sat / unique by a hash of the problem) and real solver callbacks (sudoku 4x4 through z3 and through the stand-in backend) x "
        "seeds; each run repeated 3x with the same deterministic seed but different Python-global random state; PRNG functions under a scripted "
        "entropy source over (a, b) in -5..5 and 32-bit extremes; one evaluation = one generate run or one PRNG contract evaluation; distinct by "
        "(pattern, seed, callback) / (function, a, b, word); non-trivial when at least one neighbour was judged")
ASSUMPTIONS = ["disallow_adjacent offset lists are symmetric (closed under negation); asymmetric lists have no documented meaning and are not generated",
               "initial problems supplied to a symmetric ArrayBuilder2D are themselves point-symmetric",
               "chi-square alarms use a 1e-9 false-alarm bound; the exact (scripted-entropy) part has none"]
REQUIRED = ["c19.generate_runs", "c19.returned_problem", "c19.returned_none", "c19.neighbours_judged", "c19.symmetry_judged", "c19.adjacency_judged",
            "c19.move_updates", "c19.purity_reverified", "c19.repro_compared", "c19.segmentation_runs", "c19.real_solver_runs",
            "c19.prng_scripted", "c19.prng_rejected_words", "c19.prng_stat", "c19.pattern.nested", "c19.pattern.choice", "c19.cross_process_compared", "c19.solve_initial_problem",
            "c19.explicit_neighbor_generator", "c19.default_checkers"]


def plan(tier):
    return {"shards": 16}


# ----------------------------------------------------------------------------- recording
class Rec:
    def __init__(self):
        self.solver_calls = []  # (problem snapshot repr, is_sat)
        self.uniq = []
        self.draws = []
        self.neighbours = 0
        self.produced = []  # (object, fingerprint)

    def add(self, p):
        self.produced.append((p, repr(p)))


_rec = [None]
_orig = {}


def _wrap_draw(mod, name):
    orig = getattr(mod, name)

    @functools.wraps(orig)
    def f(*a):
        r = orig(*a)
        rec = _rec[0]
        if rec is not None and mod is SR:
            rec.draws.append((name, repr(a[0])[:60] if name in ("choice",) else (a if name == "randint" else None),
                              r if name != "shuffle" else repr(a[0])[:200]))
        return r

    setattr(mod, name, f)
    _orig[(mod.__name__, name)] = orig


def install_draw_recorders():
    if _orig:
        return
    for n in ("randint", "choice", "shuffle", "random"):
        _wrap_draw(SR, n)


# ----------------------------------------------------------------------------- neighbour law
def owners(pattern, pos=()):
    if isinstance(pattern, GB.Builder):
        yield pos, pattern
    elif isinstance(pattern, (list, tuple)):
        for i, p in enumerate(pattern):
            yield from owners(p, pos + (i,))


def get(obj, pos):
    for i in pos:
        obj = obj[i]
    return obj


def same_structure(pat, a, b):
    if isinstance(pat, GB.Builder):
        return True
    if isinstance(pat, (list, tuple)):
        if type(a) is not type(b) or type(b) is not type(pat) or len(a) != len(b):
            return False
        return all(same_structure(p, x, y) for p, x, y in zip(pat, a, b))
    return a == b


def judge_neighbour(ctx, pattern, cur, nxt, desc):
    ctx.count("c19.neighbours_judged")
    if not same_structure(pattern, cur, nxt):
        ctx.violation("neighbour:structure", "nested list/tuple structure or a constant part of the problem changed", desc)
        return
    changed = [(pos, b) for pos, b in owners(pattern) if get(cur, pos) != get(nxt, pos)]
    if len(changed) > 1:
        ctx.violation("neighbour:several-builders", f"a neighbour differs at {len(changed)} builder positions", desc)
        return
    if not changed:
        ctx.count("c19.neighbour_identical")
        return
    pos, b = changed[0]
    c, n = get(cur, pos), get(nxt, pos)
    if isinstance(b, Choice):
        if n not in b.choice:
            ctx.violation("neighbour:value-outside-choice:Choice", f"Choice builder moved to {n!r}, not in its choice set", desc)
    elif isinstance(b, ArrayBuilder2D):
        h, w = b.height, b.width
        if not (isinstance(n, list) and len(n) == h and all(isinstance(r, list) and len(r) == w for r in n)):
            ctx.violation("neighbour:array-shape", "ArrayBuilder2D value lost its height x width shape", desc)
            return
        diff = [(y, x) for y in range(h) for x in range(w) if c[y][x] != n[y][x]]
        present = {v for r in c for v in r}
        for y, x in diff:
            if n[y][x] not in b.choice and n[y][x] not in present:
                ctx.violation("neighbour:value-outside-choice:Array", f"cell {(y, x)} set to {n[y][x]!r}, not in the choice set", desc)
                return
        # a move update only carries existing values around: every value written is the old value of another changed cell (or of the
        # point-symmetric partner of one, for symmetric builders whose swap passes through the centre cell)
        pool = [c[y][x] for y, x in diff] + ([c[h - 1 - y][w - 1 - x] for y, x in diff] if b.symmetry else [])
        is_move = b.use_move and len(diff) >= 2 and all(any(n[y][x] == o for o in pool) for y, x in diff)
        if is_move:
            ctx.count("c19.move_updates")
        nd = lambda g, y, x: g[y][x] != b.default  # noqa: E731
        if b.symmetry:
            sym_before = all(nd(c, y, x) == nd(c, h - 1 - y, w - 1 - x) for y in range(h) for x in range(w))
            if sym_before:
                ctx.count("c19.symmetry_judged")
                if not all(nd(n, y, x) == nd(n, h - 1 - y, w - 1 - x) for y in range(h) for x in range(w)):
                    ctx.violation("neighbour:symmetry-broken" + (":move" if is_move else ":set"),
                                  "the non-default pattern was point-symmetric before the update and is not afterwards", desc)
                    return
        if b.disallow_adjacent and not is_move:
            ctx.count("c19.adjacency_judged")
            for y, x in diff:
                if nd(n, y, x):
                    for dy, dx in b.disallow_adjacent:
                        y2, x2 = y + dy, x + dx
                        if 0 <= y2 < h and 0 <= x2 < w and nd(n, y2, x2) and (not nd(c, y, x) or not nd(c, y2, x2)):
                            ctx.violation("neighbour:adjacency-created", f"value-setting update made {(y, x)} and {(y2, x2)} both non-default "
                                          f"at forbidden offset {(dy, dx)}", desc)
                            return
    elif isinstance(b, SegmentationBuilder2D):
        err = mseg.partition_errors(b, n, check_bounds=mseg.partition_errors(b, c, True) is None)
        if err:
            ctx.violation("neighbour:segmentation:" + err[0], err[1], desc)


# ----------------------------------------------------------------------------- one monitored generate run
def monitored_generate(ctx, pattern_factory, solver_cb, uniq_cb, score_cb, pretest_cb, desc, max_steps, penalty=None, pattern=None,
                       explicit=False, solve_initial=False, expect_unique=None):
    """explicit: hand initial_problem / neighbor_generator over instead of builder_pattern; solve_initial: solve_initial_problem=True;
    uniq_cb / score_cb None: the library's default checkers judge the answer objects (expect_unique(problem) says what they must find)"""
    rec = Rec()
    pattern = pattern if pattern is not None else pattern_factory()
    rec.pattern = pattern
    real_bng = GB.build_neighbor_generator
    cur_holder = {}

    def bng(pat):
        initial, gen = real_bng(pat)
        rec.add(initial)

        def mgen(problem):
            cur_snapshot = copy.deepcopy(problem)
            for nxt in gen(problem):
                rec.neighbours += 1
                rec.add(nxt)
                if problem != cur_snapshot:
                    ctx.violation("purity:current-mutated-by-neighbour-generation", "the current problem changed while neighbours were generated", desc)
                judge_neighbour(ctx, pat, cur_snapshot, nxt, desc)
                yield nxt
        return initial, mgen

    def solver(p):
        r = solver_cb(p)
        rec.solver_calls.append((repr(p), bool(r[0]), p))
        return r

    def uniq(*ans):
        r = uniq_cb(*ans)
        rec.uniq.append(bool(r))
        return r

    kw = {}
    if uniq_cb is not None:
        kw["uniqueness"] = uniq
    if score_cb is not None:
        kw["score"] = score_cb
    if solve_initial:
        kw["solve_initial_problem"] = True
        ctx.count("c19.solve_initial_problem")
    if max_steps is not None:
        kw["max_steps"] = max_steps

    pre_log = []

    def pretest(p):
        r = pretest_cb(p)
        pre_log.append((repr(p), bool(r)))
        return r

    GC.build_neighbor_generator = bng
    _rec[0] = rec
    try:
        if explicit:
            ctx.count("c19.explicit_neighbor_generator")
            ini, gen = bng(pattern)
            res = generate_problem(solver, initial_problem=ini, neighbor_generator=gen, pretest=(pretest if pretest_cb else None),
                                   clue_penalty=penalty, **kw)
        else:
            res = generate_problem(solver, builder_pattern=pattern, pretest=(pretest if pretest_cb else None), clue_penalty=penalty, **kw)
    finally:
        GC.build_neighbor_generator = real_bng
        _rec[0] = None
    ctx.count("c19.generate_runs")
    # ---- soundness
    if res is not None:
        ctx.count("c19.returned_problem")
        if not rec.solver_calls:
            ctx.violation("soundness:returned-without-solving", "a problem was returned although the solver callback was never called", desc)
        else:
            last_repr, last_sat, last_obj = rec.solver_calls[-1]
            if repr(res) != last_repr:
                ctx.violation("soundness:returned-other-problem", "the returned problem is not the one last passed to the solver", desc)
            elif not last_sat:
                ctx.violation("soundness:returned-unsat", "the returned problem was reported unsatisfiable by the solver", desc)
            elif uniq_cb is not None and (not rec.uniq or not rec.uniq[-1]):
                ctx.violation("soundness:returned-non-unique", "the returned problem was not accepted by the uniqueness test", desc)
            elif uniq_cb is None and expect_unique is not None and not expect_unique(res):
                ctx.violation("soundness:returned-non-unique:default-checker", "the returned problem's answer has an undetermined entry "
                              "(the default uniqueness test must have rejected it)", desc)
            if pretest_cb and not any(r == repr(res) and ok for r, ok in pre_log):
                ctx.violation("soundness:returned-without-pretest", "the returned problem did not pass pretest", desc)
    else:
        ctx.count("c19.returned_none")
    if pretest_cb:
        okset = {r for r, ok in pre_log if ok}
        for r, sat, _ in rec.solver_calls[(1 if solve_initial else 0):]:  # the initial problem is solved without pretest
            if r not in okset:
                ctx.violation("soundness:solver-called-on-pretest-reject", "the solver was called on a problem that pretest rejected", desc)
                break
    # ---- purity of everything ever produced
    for obj, fp in rec.produced:
        ctx.count("c19.purity_reverified")
        if repr(obj) != fp:
            ctx.violation("purity:earlier-problem-mutated", "a previously produced problem was modified in place later", desc)
            break
    return res, rec


# ----------------------------------------------------------------------------- workloads
def h32(s):
    import hashlib

    return int.from_bytes(hashlib.blake2b(s.encode(), digest_size=4).digest(), "little")


class Tok:
    def __init__(self, v):
        self.v = v


def scripted_callbacks(salt, sat_rate, uniq_rate):
    def solver(p):
        x = h32(f"{salt}|{p!r}")
        return (x % 1000 < sat_rate * 1000, Tok(x))

    def uniq(tok):
        return (tok.v >> 10) % 1000 < uniq_rate * 1000

    def score(tok):
        return (tok.v >> 20) % 17

    return solver, uniq, score


def default_answer_callbacks(salt, sat_rate, uniq_rate):
    """A solver callback whose answer consists of real cspuz objects (a variable, arrays, a grid frame, nested lists) with scripted
    .sol values, for the library's DEFAULT score / uniqueness functions: all entries are decided iff the keyed hash says 'unique',
    otherwise exactly one entry - at a place chosen by the hash: the single variable, an array, the frame, the nested list - is None."""
    def unique(p):
        return (h32(f"{salt}|{p!r}") >> 10) % 1000 < uniq_rate * 1000

    def solver(p):
        x = h32(f"{salt}|{p!r}")
        s = cspuz.Solver()
        v = s.bool_var()
        a1 = s.int_array(3, 0, 5)
        a2 = s.bool_array((2, 2))
        fr = cspuz.BoolGridFrame(s, 1, 1)
        deep = [s.int_var(0, 3), [s.bool_var(), [s.int_var(0, 1)]]]
        every = [v] + list(a1) + list(a2) + list(fr) + [deep[0], deep[1][0], deep[1][1][0]]
        for k, e in enumerate(every):
            e.sol = (k % 2 == 0) if isinstance(e, BoolVar) else k % 3
        if not unique(p):
            every[(x >> 3) % len(every)].sol = None
        return (x % 1000 < sat_rate * 1000, v, a1, a2, fr, deep)

    return solver, unique


def sym_offsets(rng):
    base = rng.sample([(0, 1), (1, 0), (1, 1), (1, -1), (0, 2), (2, 0)], rng.randint(1, 3))
    return base + [(-a, -b) for a, b in base]


def gen_pattern(rng):
    """-> (kind, factory, desc)"""
    k = rng.random()
    h, w = rng.choice([(1, 1), (1, 4), (3, 1), (2, 2), (3, 3), (3, 4), (4, 4), (5, 3)])
    choice = rng.choice([[0, 1], [0, 1, 2], [-1, 0, 1, 2, 3], ["..", "a", "b"], [None, 1, 2]])
    default = choice[0]

    def array_kw(h=h, w=w):
        kw = {}
        if rng.random() < 0.5:
            kw["symmetry"] = True
        d = rng.random()
        if d < 0.3:
            kw["disallow_adjacent"] = True
        elif d < 0.45:
            kw["disallow_adjacent"] = sym_offsets(rng)
        if rng.random() < 0.35:
            kw["use_move"] = True
        if rng.random() < 0.2:
            init = [[default] * w for _ in range(h)]
            if h * w >= 2:
                y, x = rng.randrange(h), rng.randrange(w)
                v = rng.choice(choice[1:])
                init[y][x] = v
                if kw.get("symmetry"):
                    init[h - 1 - y][w - 1 - x] = v
                if kw.get("disallow_adjacent") and kw.get("symmetry") and (h - 1 - 2 * y, w - 1 - 2 * x) in (
                        kw["disallow_adjacent"] if isinstance(kw["disallow_adjacent"], list) else [(-1, 0), (1, 0), (0, -1), (0, 1)]):
                    init = [[default] * w for _ in range(h)]
            kw["initial"] = init
        return kw

    if k < 0.15:
        ch = rng.choice([[1, 2, 3], ["x", "y"], [0, 5]])
        return "choice", (lambda: Choice(ch, ch[0])), {"pattern": "Choice", "choice": ch}
    if k < 0.55:
        kw = array_kw()
        return "array", (lambda: ArrayBuilder2D(h, w, choice, default, **copy.deepcopy(kw))), {"pattern": "ArrayBuilder2D", "shape": [h, w],
                                                                                                "choice": repr(choice), "kw": repr(kw)}
    if k < 0.75:
        kw1, kw2 = array_kw(), array_kw(w, h)
        ch = [1, 2, 3]
        form = rng.choice(["list", "tuple", "deep"])

        def fac():
            a = ArrayBuilder2D(h, w, choice, default, **copy.deepcopy(kw1))
            b = ArrayBuilder2D(w, h, choice, default, **copy.deepcopy(kw2))
            c = Choice(ch, 1)
            if form == "list":
                return [a, c, "constant", b]
            if form == "tuple":
                return (a, [c, c2()], b)
            return [(a, 7), [[c], (b,)]]

        def c2():
            return Choice([True, False], False)
        return "nested", fac, {"pattern": "nested-" + form, "shape": [h, w], "kw": repr((kw1, kw2))}
    hh, ww = rng.choice([(2, 2), (2, 3), (3, 3), (4, 3), (1, 5)])
    seg_kw = rng.choice([{}, {"min_block_size": 1, "max_block_size": 3}, {"min_num_blocks": 2}, {"max_num_blocks": 3, "min_block_size": 2}])
    if seg_kw.get("min_block_size") == 2 and hh * ww % 2 == 1 and seg_kw.get("max_num_blocks"):
        seg_kw = {}
    with_clues = rng.random() < 0.5
    if rng.random() < 0.25 and hh >= 2 and ww >= 2:
        # a board with holes: the rows as initial blocks, the last cell of every other row left uncovered
        seg_kw = {"initial_blocks": [[(y, x) for x in range(ww - (1 if y % 2 else 0))] for y in range(hh)]}

    def fac2():
        sb = SegmentationBuilder2D(hh, ww, **copy.deepcopy(seg_kw))
        if with_clues:
            return (sb, [Choice([-1, 0, 1, 2], -1) for _ in range(hh)], [Choice([-1, 0, 1], -1) for _ in range(ww)])
        return sb
    return "segmentation", fac2, {"pattern": "SegmentationBuilder2D" + ("+clues" if with_clues else ""), "shape": [hh, ww], "kw": repr(seg_kw)}


def run_scripted(ctx, rng, t):
    kind, fac, desc = gen_pattern(rng)
    seed = rng.randint(0, 63)
    salt = rng.getrandbits(30)
    sat_rate = rng.choice([0.2, 0.6, 1.0])
    uniq_rate = rng.choice([0.0, 0.02, 0.1, 0.5])
    use_pre = rng.random() < 0.3
    max_steps = rng.choice([3, 10, 40])
    explicit = rng.random() < 0.25
    solve_initial = rng.random() < 0.3
    use_defaults = rng.random() < 0.25
    if use_defaults:
        ctx.count("c19.default_checkers")
    desc = dict(desc, seed=seed, salt=salt, sat_rate=sat_rate, uniq_rate=uniq_rate, pretest=use_pre, max_steps=max_steps, explicit=explicit,
                solve_initial=solve_initial, default_checkers=use_defaults)
    ctx.current_case = desc
    ctx.count("c19.pattern." + kind)
    if kind == "segmentation":
        ctx.count("c19.segmentation_runs")
    pre = (lambda p: h32(f"pre{salt}|{p!r}") % 4 != 0) if use_pre else None
    pen = (lambda p: h32(f"pen{salt}|{p!r}") % 3) if rng.random() < 0.3 else None
    outcomes = []
    prev_pattern = None
    for rep in range(3):
        pyrandom.seed(1000 * rep + 17)  # Python's global random state differs between repetitions
        SR.use_deterministic_prng(True, seed=seed)
        # extensionally equal solver callbacks: same function behind different wrappers / argument copies
        solver, uniq, score = scripted_callbacks(salt, sat_rate, uniq_rate)
        if rep == 1:
            s0 = solver
            solver = lambda p, s0=s0: s0(copy.deepcopy(p))  # noqa: E731
        if use_defaults:
            solver, expect_unique = default_answer_callbacks(salt, sat_rate, max(uniq_rate, 0.05))
            uniq = score = None
        else:
            expect_unique = None
        try:
            # repetition 2 reuses repetition 1's builder objects: builders must not carry state from one run to the next
            res, rec = monitored_generate(ctx, fac, solver, uniq, score, pre, desc, max_steps, pen, pattern=(prev_pattern if rep == 2 else None),
                                          explicit=explicit, solve_initial=solve_initial, expect_unique=expect_unique)
            prev_pattern = rec.pattern
        except Exception as e:
            ctx.violation(f"generate-raises:{type(e).__name__}:{kind}", f"generate_problem raised {e!r}", desc)
            SR.use_deterministic_prng(False)
            return
        finally:
            pass
        outcomes.append((repr(res), [c[0] for c in rec.solver_calls], rec.draws))
        if rep == 0:
            ctx.case(["gen", desc], nontrivial=rec.neighbours > 0)
    SR.use_deterministic_prng(False)
    ctx.count("c19.repro_compared")
    a = outcomes[0]
    for rep, b in enumerate(outcomes[1:], 1):
        if a[0] != b[0] or a[1] != b[1]:
            first = next((i for i, (x, y) in enumerate(zip(a[1], b[1])) if x != y), min(len(a[1]), len(b[1])))
            ctx.violation(f"reproducibility:{kind}", f"same deterministic seed, different global random state: candidate sequences diverge at "
                          f"solver call {first} (lengths {len(a[1])}/{len(b[1])}), results equal: {a[0] == b[0]}", desc)
            return
        if a[2] != b[2]:
            ctx.violation(f"reproducibility-draws:{kind}", "the sequences of srandom draws differ between repetitions", desc)
            return
    if t < 2:
        ctx.sample(dict(desc, result=outcomes[0][0][:200], solver_calls=len(outcomes[0][1])))


def run_real(ctx, rng):
    """Real solver callback: 4x4 sudoku generation; backend z3 vs the stand-in (extensionally equal by C02/C03)."""
    import os
    import sys

    from cspuz.puzzle import sudoku

    mods = os.path.join(os.environ.get("VERIF_HOME", "/verif"), "stubs", "mods")
    if mods not in sys.path:
        sys.path.append(mods)
    seed = rng.randint(0, 63)
    desc = {"pattern": "sudoku-4x4", "seed": seed}
    ctx.current_case = desc
    outs = []
    old = cspuz.config.default_backend
    for rep, be in enumerate(["z3", "cspuz_core", "z3"]):
        cspuz.config.default_backend = be
        pyrandom.seed(rep * 7 + 1)
        SR.use_deterministic_prng(True, seed=seed)
        try:
            res, rec = monitored_generate(ctx, lambda: ArrayBuilder2D(4, 4, range(0, 5), default=0, symmetry=(seed % 2 == 0)),
                                          lambda p: sudoku.solve_sudoku(p, n=2), GC.default_uniqueness_checker, GC.default_score_calculator,
                                          None, desc, 12, lambda p: GC.count_non_default_values(p, default=0, weight=5))
        except Exception as e:
            ctx.violation(f"generate-raises:{type(e).__name__}:real", f"generate_problem (sudoku, backend {be}) raised {e!r}", desc)
            break
        finally:
            cspuz.config.default_backend = old
            SR.use_deterministic_prng(False)
        outs.append((repr(res), [c[0] for c in rec.solver_calls]))
    ctx.count("c19.real_solver_runs")
    ctx.case(["real", desc], nontrivial=True)
    if len(outs) == 3 and not (outs[0] == outs[1] == outs[2]):
        ctx.violation("reproducibility:backend", "same seed, different backend / global random state: candidate sequence or result differs", desc)


# ----------------------------------------------------------------------------- PRNG contracts
class Script:
    def __init__(self, words):
        self.words = list(words)
        self.i = 0

    def next(self):
        w = self.words[self.i % len(self.words)]
        self.i += 1
        return w


def prng_scripted(ctx, rng):
    D = 1 << 32
    pairs = [(a, b) for a in range(-5, 6) for b in range(a, 6)] + [(0, D - 1), (-(1 << 31), (1 << 31) - 1), (7, 7 + 3 * (1 << 30)), (-3, D - 4), (1, D // 2 + 1)]
    real = DR._rng
    try:
        for (a, b) in pairs:
            w = b - a + 1
            limit = D - D % w
            probe = sorted({0, 1, w - 1, w % D, (w + 1) % D, limit - 1, limit % D, (limit + 1) % D, D - 1, D // 2} | {rng.randrange(D) for _ in range(6)})
            for word in probe:
                # a rejected word must be followed by the next word of the stream; give an accepted terminator (0)
                sc = Script([word, 0])
                DR._rng = sc
                got = DR.randint(a, b)
                ctx.count("c19.prng_scripted")
                ctx.case(["randint", a, b, word], nontrivial=True)
                if word < limit:
                    want, used = a + word % w, 1
                else:
                    want, used = a, 2
                    ctx.count("c19.prng_rejected_words")
                if got != want or sc.i != used:
                    ctx.violation("prng:randint" + (":offset" if (got - want) == -a and a != 0 else ""),
                                  f"randint({a}, {b}) on entropy word {word}: returned {got} after {sc.i} words, uniform mapping gives {want} after {used}",
                                  {"a": a, "b": b, "word": word})
                    return
        # choice / shuffle / random on scripted words
        for n in range(1, 7):
            for word in [0, 1, n - 1, n, D - 1, (D - D % n) - 1, D - D % n]:
                sc = Script([word, 0])
                DR._rng = sc
                cand = list("abcdefg"[:n])
                got = DR.choice(cand)
                lim = D - D % n
                want = cand[word % n] if word < lim else cand[0]
                ctx.count("c19.prng_scripted")
                if got != want:
                    ctx.violation("prng:choice", f"choice over {n} candidates on word {word} returned {got!r}, expected {want!r}", {"n": n, "word": word})
                    return
        for word in [0, 1, D // 2, D - 1, 12345]:
            DR._rng = Script([word])
            got = DR.random()
            ctx.count("c19.prng_scripted")
            if got != word / D or not (0.0 <= got < 1.0):
                ctx.violation("prng:random", f"random() on word {word} returned {got}", {"word": word})
                return
        # Fisher-Yates: index i draws from [0, i]
        for n in range(0, 6):
            for trial in range(20):
                words = [rng.randrange(D) for _ in range(8)]
                DR._rng = Script(words)
                seq = list(range(n))
                DR.shuffle(seq)
                ref = list(range(n))
                k = 0
                for i in range(1, n):
                    while True:
                        x = words[k % len(words)]
                        k += 1
                        if x < D - D % (i + 1):
                            break
                    j = x % (i + 1)
                    if i != j:
                        ref[i], ref[j] = ref[j], ref[i]
                ctx.count("c19.prng_scripted")
                if seq != ref or sorted(seq) != list(range(n)):
                    ctx.violation("prng:shuffle", f"shuffle of {n} items deviates from Fisher-Yates on the scripted stream", {"n": n, "words": words})
                    return
    finally:
        DR._rng = real


def prng_stat(ctx, rng):
    """Support and chi-square on the real XorShift stream, through srandom with the deterministic PRNG enabled."""
    SR.use_deterministic_prng(True, seed=rng.randint(0, 10 ** 6))
    try:
        for (a, b) in [(0, 0), (0, 1), (-3, 2), (2, 6), (1, 10), (-5, -1)]:
            n = 6000
            w = b - a + 1
            cnt = {}
            for _ in range(n):
                x = SR.randint(a, b)
                cnt[x] = cnt.get(x, 0) + 1
            ctx.count("c19.prng_stat")
            ctx.case(["stat", a, b], nontrivial=True)
            if set(cnt) != set(range(a, b + 1)):
                ctx.violation("prng:randint-support", f"randint({a}, {b}) produced values {sorted(cnt)[:12]} over {n} draws", {"a": a, "b": b})
                return
            chi = sum((cnt[v] - n / w) ** 2 / (n / w) for v in cnt)
            if chi > 2 * (w - 1) + 80:  # far beyond the 1e-9 tail for <= 9 degrees of freedom
                ctx.violation("prng:randint-nonuniform", f"randint({a}, {b}): chi-square {chi:.1f} over {n} draws", {"a": a, "b": b})
                return
        perms = {}
        for _ in range(4000):
            s = [0, 1, 2, 3]
            SR.shuffle(s)
            perms[tuple(s)] = perms.get(tuple(s), 0) + 1
        ctx.count("c19.prng_stat")
        if len(perms) != 24 or min(perms.values()) < 60:
            ctx.violation("prng:shuffle-support", f"shuffle of 4 items reached {len(perms)} permutations (min count {min(perms.values())})", {})
        seen = set()
        for _ in range(3000):
            seen.add(SR.choice("abcde"))
            r = SR.random()
            if not (0.0 <= r < 1.0):
                ctx.violation("prng:random-range", f"random() returned {r}", {})
                return
        if seen != set("abcde"):
            ctx.violation("prng:choice-support", f"choice reached only {sorted(seen)}", {})
    finally:
        SR.use_deterministic_prng(False)


def cross_process(ctx, rng, n):
    """Same deterministic seed in fresh interpreters that differ in PYTHONHASHSEED and in Python's global random state: the
    candidate sequence (every problem handed to the solver callback) and the result must be identical."""
    import json
    import os
    import subprocess
    import sys

    home = os.environ.get("VERIF_HOME", "/verif")
    for t in range(n):
        h, w = rng.choice([(1, 4), (2, 2), (3, 3), (3, 4), (5, 3)])
        choice = rng.choice([["..", "a", "b", "cc"], ["x", "y"], [0, 1, 2], [-1, 0, 1, 2, 3], ["..", "^1", "v2", "<3", ">0"]])
        kw = {}
        if rng.random() < 0.6:
            kw["symmetry"] = True
        if rng.random() < 0.3:
            kw["disallow_adjacent"] = True
        if rng.random() < 0.3:
            kw["use_move"] = True
        arr = {"kind": "array", "h": h, "w": w, "choice": choice, "kw": kw}
        spec = rng.choice([arr, arr, {"kind": "choice", "choice": ["p", "q", "r"]},
                           {"kind": "list", "items": [arr, {"kind": "choice", "choice": ["s", "t"]}]},
                           {"kind": "tuple", "items": [{"kind": "seg", "h": 2, "w": 3, "kw": {}}, arr]}])
        cfg = {"spec": spec, "seed": rng.randint(0, 63), "salt": rng.getrandbits(30), "sat_rate": rng.choice([0.6, 1.0]),
               "uniq_rate": rng.choice([0.0, 0.05]), "max_steps": rng.choice([10, 40])}
        ctx.current_case = {"cross_process": cfg}
        outs = []
        for k, hs in enumerate(["0", "1", str(rng.randint(2, 4000000)), "random"]):
            env = dict(os.environ, PYTHONHASHSEED=hs)
            try:
                r = subprocess.run([sys.executable, os.path.join(home, "vf", "workloads", "gen_child.py"), json.dumps(dict(cfg, pyseed=k))],
                                   env=env, capture_output=True, text=True, timeout=120)
            except subprocess.TimeoutExpired:
                ctx.inconc("generation child timed out", ctx.current_case)
                outs = None
                break
            line = next((x for x in r.stdout.splitlines() if x.startswith("GEN ")), None)
            if line is None:
                ctx.inconc("generation child produced no observation", {"cfg": cfg, "stderr": r.stderr[-300:]})
                outs = None
                break
            outs.append(json.loads(line[4:]))
        if not outs:
            continue
        ctx.case(["xproc", cfg], nontrivial=len(outs[0]["calls"]) > 1)
        ctx.count("c19.cross_process_compared")
        if any("error" in o for o in outs):
            if not all(o.get("error") == outs[0].get("error") for o in outs):
                ctx.violation("reproducibility:cross-process:error", f"children disagree on raising: {[o.get('error') for o in outs]}", ctx.current_case)
            continue
        a = outs[0]
        for k, b in enumerate(outs[1:], 1):
            if a["calls"] != b["calls"] or a["result"] != b["result"]:
                first = next((i for i, (x, y) in enumerate(zip(a["calls"], b["calls"])) if x != y), min(len(a["calls"]), len(b["calls"])))
                ctx.violation("reproducibility:cross-process", f"same deterministic seed, interpreters with different PYTHONHASHSEED / global random "
                              f"state: candidate sequences diverge at solver call {first} (lengths {len(a['calls'])}/{len(b['calls'])}), "
                              f"results equal: {a['result'] == b['result']}", ctx.current_case)
                break


def run(ctx):
    rng = ctx.rng
    install_draw_recorders()
    mseg.install(ctx)
    thorough = ctx.tier == "thorough"
    for t in range(180 if not thorough else 4000):
        with ctx.guard(120):
            run_scripted(ctx, rng, t)
    for t in range(1 if not thorough else 12):
        with ctx.guard(600):
            run_real(ctx, rng)
    prng_scripted(ctx, rng)
    prng_stat(ctx, rng)
    mseg.uninstall()
    cross_process(ctx, rng, 3 if not thorough else 40)


def replay(w, ctx):
    print("generate runs are regenerated from the shard seed; witness:", w)
    install_draw_recorders()
    prng_scripted(ctx, ctx.rng)
