"""C18  Segmentation builder only ever produces valid room partitions.

Deciding method: M-SEG (class invariant + purity checks hooked on the real
initial() / copy_with_update()) observed over random walks through the updates
the builder itself proposes, for many boards, bound configurations and seeds."""
import random

from cspuz.generator.segmentation import SegmentationBuilder2D

from ..monitors import mseg
from ..workloads import codecs as K

RULE = ("random walks: from initial(), repeatedly apply one of candidates(current) (uniform, or biased to the rarer update kind) for 30-300 "
        "steps; boards 1x1..8x8 incl. 1xN; bound configurations derived from a random target partition (loose / tight / none per bound), "
        "with and without initial_blocks and allow_unmet_constraints_first; Python's global random reseeded per walk; one evaluation = one "
        "monitored update or initial(); distinct by (bounds, partition reached); non-trivial = the walk state differs from its predecessor")
ASSUMPTIONS = ["bound configurations are generated around an existing target partition (unsatisfiable configurations, for which initial() cannot "
               "terminate, are outside the statement)",
               "with allow_unmet_constraints_first the bounds are judged only from the first value that is inside them"]
REQUIRED = ["mseg.initial", "mseg.copy_with_update", "mseg.kind.merge", "mseg.kind.split", "mseg.kind.move", "mseg.history_reverified",
            "c18.walks", "c18.single_row_or_column", "c18.tight_bounds", "c18.initial_blocks", "c18.unmet_first", "c18.initial_blocks_not_meeting_bounds", "c18.exact_block_size", "c18.boards_with_uncovered_cells"]


def plan(tier):
    return {"shards": 16}


def gen_config(rng):
    h, w = rng.choice([(1, 1), (1, 2), (1, 5), (4, 1), (2, 2), (2, 3), (3, 3), (3, 4), (4, 4), (5, 5), (6, 4), (8, 8), (2, 7)])
    ids = K.random_partition_ids(h, w, rng)
    rooms = {}
    for y in range(h):
        for x in range(w):
            rooms.setdefault(ids[y][x], []).append((y, x))
    target = list(rooms.values())
    k = len(target)
    sizes = [len(r) for r in target]
    cfg = {"height": h, "width": w}
    tight = False

    def pick(lo_tight, hi_loose, minimum):
        nonlocal tight
        m = rng.random()
        if m < 0.3:
            return None
        if m < 0.6:
            tight = True
            return lo_tight
        return hi_loose if hi_loose >= minimum else lo_tight

    cfg["min_num_blocks"] = pick(k, max(1, k - rng.randint(0, 2)), 1)
    cfg["max_num_blocks"] = pick(k, k + rng.randint(0, 3), 1)
    cfg["min_block_size"] = pick(min(sizes), max(1, min(sizes) - rng.randint(0, 2)), 1)
    cfg["max_block_size"] = pick(max(sizes), max(sizes) + rng.randint(0, 4), 1)
    extra = {}
    if rng.random() < 0.3:
        extra["initial_blocks"] = [list(r) for r in target]
        if rng.random() < 0.7:
            # rooms as a person would write them down: cells in arbitrary order, rooms in arbitrary order
            for r in extra["initial_blocks"]:
                rng.shuffle(r)
            rng.shuffle(extra["initial_blocks"])
    elif rng.random() < 0.25:
        # a layout that does NOT meet the bounds (all singletons / another random partition / one block): initial() has to walk
        # from it until every bound holds (the bounds themselves are feasible: the target partition meets them)
        m = rng.randrange(3)
        if m == 0:
            other = [[(y, x)] for y in range(h) for x in range(w)]
        elif m == 1:
            ids2 = K.random_partition_ids(h, w, rng)
            rr = {}
            for y in range(h):
                for x in range(w):
                    rr.setdefault(ids2[y][x], []).append((y, x))
            other = list(rr.values())
        else:
            other = [[(y, x) for y in range(h) for x in range(w)]]
        extra["initial_blocks"] = other
        extra["_unmet_start"] = True
    if rng.random() < 0.4 and h * w >= 6 and "initial_blocks" in extra and not extra.get("_unmet_start"):
        # a board with holes: one room of the target layout is left out of initial_blocks (its cells stay uncovered for ever)
        ib = extra["initial_blocks"]
        if len(ib) >= 3:
            ib.pop(rng.randrange(len(ib)))
            for key in ("min_num_blocks", "max_num_blocks"):
                cfg[key] = None
            extra["_holes"] = True
    if rng.random() < 0.2:
        extra["allow_unmet_constraints_first"] = True
    if rng.random() < 0.15 and h * w >= 4:
        # exact block size: the walk of initial() dead-ends often (it must then raise, never hand out an invalid value)
        size = rng.choice([s for s in (2, 3, 4) if (h * w) % s == 0] or [1])
        cfg.update(min_block_size=size, max_block_size=size, min_num_blocks=None, max_num_blocks=None)
        extra.pop("initial_blocks", None)
        extra.pop("_unmet_start", None)
        extra.pop("_holes", None)
        tight = True
    return cfg, extra, tight


def walk(ctx, st, rng, cfg, extra, steps):
    if extra.pop("_holes", False):
        ctx.count("c18.boards_with_uncovered_cells")
    unmet_start = extra.pop("_unmet_start", False)
    if unmet_start:
        ctx.count("c18.initial_blocks_not_meeting_bounds")
    if cfg["min_block_size"] is not None and cfg["min_block_size"] == cfg["max_block_size"]:
        ctx.count("c18.exact_block_size")
    b = SegmentationBuilder2D(cfg["height"], cfg["width"], cfg["min_num_blocks"], cfg["max_num_blocks"], cfg["min_block_size"],
                              cfg["max_block_size"], **extra)
    ctx.current_case = {"config": cfg, "extra": {k: (v if k != "initial_blocks" else "target partition") for k, v in extra.items()}}
    try:
        cur = b.initial()
    except IndexError:
        # initial() walks randomly from the one-block board until the bounds are met and can run out of candidates
        # (dead end) for tight configurations: no value is produced, so the statement does not apply to this run
        ctx.count("c18.initial_dead_end")
        return
    ctx.case(["init", cfg, sorted(map(sorted, cur))], nontrivial=True)
    seen_kinds = {}
    for _ in range(steps):
        cands = b.candidates(cur)
        if not cands:
            ctx.count("c18.no_candidates")
            break
        by_kind = {}
        for c in cands:
            by_kind.setdefault(mseg.update_kind(c), []).append(c)
        if rng.random() < 0.5:
            # bias to the update kind applied least often so far in this walk
            kind = min(by_kind, key=lambda k: seen_kinds.get(k, 0))
            cand = rng.choice(by_kind[kind])
        else:
            cand = rng.choice(cands)
        seen_kinds[mseg.update_kind(cand)] = seen_kinds.get(mseg.update_kind(cand), 0) + 1
        nxt = b.copy_with_update(cur, cand)
        ctx.case(["step", cfg, sorted(map(sorted, nxt))], nontrivial=sorted(map(sorted, nxt)) != sorted(map(sorted, cur)))
        if mseg.partition_errors(b, nxt, check_bounds=False):
            break  # reported by M-SEG; do not continue from a broken value
        cur = nxt
    ctx.count("c18.walks")


def run(ctx):
    rng = ctx.rng
    st = mseg.install(ctx)
    thorough = ctx.tier == "thorough"
    n = 250 if not thorough else 5000
    for t in range(n):
        cfg, extra, tight = gen_config(rng)
        random.seed(rng.getrandbits(32))  # the builder draws from Python's global random
        if cfg["height"] == 1 or cfg["width"] == 1:
            ctx.count("c18.single_row_or_column")
        if tight:
            ctx.count("c18.tight_bounds")
        if "initial_blocks" in extra:
            ctx.count("c18.initial_blocks")
        if extra.get("allow_unmet_constraints_first"):
            ctx.count("c18.unmet_first")
        with ctx.guard(120):
            walk(ctx, st, rng, cfg, extra, rng.choice([30, 60, 150, 300]) if thorough else rng.choice([30, 60, 120]))
        if t % 20 == 0:
            mseg.verify_history(st)
        if t == 0:
            ctx.sample({"config": cfg, "extra": list(extra)})
    mseg.uninstall()


def replay(w, ctx):
    st = mseg.install(ctx)
    c = w.get("case") or {}
    cfg = c.get("config")
    if cfg:
        for s in range(20):
            random.seed(s)
            walk(ctx, st, random.Random(s), cfg, {}, 100)
    mseg.uninstall()
