"""C17  Decoding arbitrary text never crashes and only yields re-encodable problems.

Deciding method: contract on every deserializer (URL-level codecs of the puzzle
modules, deserialize_problem_as_url, get_puzzle_info_from_url, every library
combinator's deserialize driven directly): outcome in {None, ValueError,
problem}; a returned problem has the URL's dimensions, re-encodes, and the
canonical text decodes to the same problem.  Workload: grammar-aware mutation
of valid URLs, random text over the URL alphabet and arbitrary Unicode, large
boards, and (thorough) coverage-guided fuzzing with atheris."""
import json
import os
import re
import subprocess
import sys

from cspuz import problem_serializer as PS
from cspuz.puzzle import compass, heyawake, lits, masyu, norinori, nurikabe, nurimisaki, slitherlink, sudoku, yajilin

from ..workloads import codecs as K
from . import c16

RULE = ("hostile strings per decoder: valid URLs of every module mutated (truncate / delete / insert / replace over the URL alphabet / duplicate "
        "segment / swap or corrupt W and H incl. 0, huge, non-ASCII digits / splice another puzzle's body / change scheme, path, name), random "
        "text over the URL alphabet, arbitrary Unicode, large single-room boards (recursion depth), library combinators driven directly with "
        "random env/idx; one evaluation = one decode call judged by the contract; distinct by (decoder, text); non-trivial = distinct text; "
        "thorough adds atheris coverage-guided fuzzing of problem_serializer")
ASSUMPTIONS = ["allowed outcomes are exactly: None, ValueError, or a problem (statement of C17); everything else is a violation with the string as witness"]
REQUIRED = ["c17.decodes", "c17.outcome.none", "c17.outcome.ValueError", "c17.outcome.problem", "c17.reencode_checked", "c17.mutated", "c17.random_text",
            "c17.unicode_text", "c17.large_boards", "c17.combinator_direct", "c17.non_url_text", "c17.zero_dim"]
ALPHABET = "0123456789abcdefghijklmnopqrstuvwxyz.-+/?:_=%ABCXYZ " + "３٣²③₂५"  # incl. characters str.isdigit() / int() accept beyond ASCII
HOME = os.environ.get("VERIF_HOME", "/verif")


def plan(tier):
    return {"shards": 16, "timeout": 1500 if tier == "quick" else 6 * 3600}


def grid_dims(p):
    if not isinstance(p, list):
        return None
    return len(p), (len(p[0]) if p else None)


def rooms_dims(t):
    return (t[0], t[1])


TARGETS = {
    # name: (decode, encode(problem) -> url, dims(problem), kind)
    "nurikabe": (nurikabe.deserialize_nurikabe, nurikabe.serialize_nurikabe, grid_dims, "grid"),
    "masyu": (masyu.deserialize_masyu, masyu.serialize_masyu, grid_dims, "grid"),
    "slither": (slitherlink.deserialize_slitherlink, slitherlink.serialize_slitherlink, grid_dims, "grid"),
    "sudoku": (sudoku.deserialize_sudoku, sudoku.serialize_sudoku, grid_dims, "grid"),
    "nurimisaki": (nurimisaki.deserialize_nurimisaki, nurimisaki.serialize_nurimisaki, grid_dims, "grid"),
    "yajilin": (yajilin.deserialize_yajilin, yajilin.serialize_yajilin, grid_dims, "grid"),
    "heyawake": (heyawake.deserialize_heyawake, lambda t: heyawake.serialize_heyawake(t[0], t[1], t[2][0], t[2][1]), rooms_dims, "sized"),
    "lits": (lits.deserialize_lits, lambda t: lits.serialize_lits(t[0], t[1], t[2]), rooms_dims, "sized"),
    "norinori": (norinori.deserialize_norinori, lambda t: norinori.serialize_norinori(t[0], t[1], t[2]), rooms_dims, "sized"),
    "compass": (compass.parse_puzz_link_url, lambda t: compass.to_puzz_link_url(t[0], t[1], t[2]), rooms_dims, "sized"),
}
URL_RE = re.compile(r"https?://[^/]+/p(?:\.html)?\?([^/]+)/(\d+)/(\d+)/(.*)")


def canon(name, p):
    if name in ("lits", "norinori"):
        return (p[0], p[1], K.canon_rooms(p[2]))
    if name == "heyawake":
        # pairing by position; the lengths are part of the problem (zip alone would hide surplus clues)
        return (p[0], p[1], len(p[2][0]), list(p[2][1])[len(p[2][0]):], sorted((sorted(map(tuple, r)), c) for r, c in zip(p[2][0], p[2][1])))
    if name == "compass":
        return (p[0], p[1], sorted(p[2]))
    return p


def classify_text(text):
    m = URL_RE.match(text)
    if m is None:
        return "non-url"
    try:
        w, h = int(m[2]), int(m[3])
    except ValueError:
        return "url"
    if w == 0 or h == 0:
        return "zero-dim"
    if w * h > 900:
        return "large"
    return "url"


def judge_decode(ctx, name, text, origin):
    decode, encode, dims, kind = TARGETS[name]
    cls = classify_text(text)
    ctx.count("c17.decodes")
    if cls == "non-url":
        ctx.count("c17.non_url_text")
    if cls == "zero-dim":
        ctx.count("c17.zero_dim")
    w = {"decoder": name, "text": text[:3000], "text_len": len(text), "origin": origin, "text_class": cls}
    if name == "compass":
        cls = "any"  # the hand-written compass parser: one mechanism per failure kind, whatever the text class
    ctx.case([name, text], nontrivial=True)
    ctx.current_case = w
    try:
        p = decode(text)
    except ValueError:
        ctx.count("c17.outcome.ValueError")
        return
    except RecursionError:
        ctx.violation(f"decode-crash:RecursionError:{name}:{cls}", f"{name} decoder hit RecursionError on a {len(text)}-character text", w)
        return
    except Exception as e:
        ctx.violation(f"decode-crash:{type(e).__name__}:{name}:{cls}", f"{name} decoder raised {e!r}", w)
        return
    if p is None:
        ctx.count("c17.outcome.none")
        return
    ctx.count("c17.outcome.problem")
    m = URL_RE.match(text)
    w["problem"] = repr(p)[:300]
    # dimensions stated in the URL
    try:
        if m is not None:
            uw, uh = int(m[2]), int(m[3])
            d = dims(p)
            if kind == "grid":
                okd = d is not None and d[0] == uh and all(len(r) == uw for r in p)
            else:
                okd = d == (uh, uw)
            if not okd:
                ctx.violation(f"wrong-dimensions:{name}:{cls}", f"URL states {uw}x{uh} (WxH) but the problem has dims {d}", w)
                return
    except Exception as e:
        ctx.violation(f"malformed-problem:{type(e).__name__}:{name}:{cls}", f"returned object is not a problem of the module's format: {e!r}", w)
        return
    if name == "heyawake":
        try:
            nr, nc = len(p[2][0]), len(p[2][1])
        except Exception as e:
            ctx.violation(f"malformed-problem:{type(e).__name__}:{name}:{cls}", f"returned object is not a problem of the module's format: {e!r}", w)
            return
        if nr != nc:
            ctx.violation(f"malformed-problem:clue-count:{name}", f"{nr} rooms but {nc} clues (a problem has one clue entry per room)", w)
            return
    # re-encodable, and canonical text decodes to the same problem
    if m is not None and int(m[2]) * int(m[3]) > 100000:
        ctx.count("c17.reencode_skipped_huge_board")  # sparse formats (compass) accept boards of 10^7 cells from a 50-character text
        return
    ctx.count("c17.reencode_checked")
    try:
        url2 = encode(p)
    except Exception as e:
        ctx.violation(f"not-reencodable:{type(e).__name__}:{name}:{cls}", f"decoded problem cannot be serialized: {e!r}", w)
        return
    try:
        p2 = decode(url2)
    except Exception as e:
        ctx.violation(f"canonical-decode-raises:{type(e).__name__}:{name}:{cls}", f"canonical text {url2[:120]!r} does not decode: {e!r}", w)
        return
    if p2 is None or canon(name, p2) != canon(name, p):
        ctx.violation(f"canonical-differs:{name}:{cls}", f"decode(encode(p)) != p for a decoded problem; canonical {url2[:120]!r}", w)


# ----------------------------------------------------------------------------- workload
def valid_urls(rng):
    """name -> one valid URL (fresh random problem each call)."""
    out = {}
    h, w = c16.shape(rng, 1, 8)
    out["nurikabe"] = nurikabe.serialize_nurikabe(c16.num_grid(rng, h, w, 0, [-1]))
    out["nurimisaki"] = nurimisaki.serialize_nurimisaki(c16.num_grid(rng, h, w, -1, [0]))
    out["masyu"] = masyu.serialize_masyu([[rng.choice([0, 0, 1, 2]) for _ in range(w)] for _ in range(h)])
    out["slither"] = slitherlink.serialize_slitherlink([[rng.choice([-1, -1, 0, 1, 2, 3]) for _ in range(w)] for _ in range(h)])
    out["yajilin"] = yajilin.serialize_yajilin(c16.yajilin_gen(rng, h, w))
    n = rng.choice([2, 3])
    out["sudoku"] = sudoku.serialize_sudoku([[rng.randint(0, n * n) for _ in range(n * n)] for _ in range(n * n)])
    rooms = K.random_rooms(h, w, rng)
    out["lits"] = lits.serialize_lits(h, w, rooms)
    out["norinori"] = norinori.serialize_norinori(h, w, rooms)
    out["heyawake"] = heyawake.serialize_heyawake(h, w, rooms, [rng.choice([-1, 0, 3, 20]) for _ in rooms])
    cells = [(y, x) for y in range(h) for x in range(w)]
    pos = [(y, x) + tuple(rng.choice([-1, 0, 2, 17]) for _ in range(4)) for (y, x) in sorted(rng.sample(cells, min(len(cells), 3)))]
    out["compass"] = compass.to_puzz_link_url(h, w, pos)
    return out


def mutate(rng, url, others):
    k = rng.random()
    m = URL_RE.match(url)
    if rng.random() < 0.10 and url:
        # what int() tolerates but the URL grammar does not: signs, underscores, blanks, full-width digits inside numbers
        i = rng.randrange(max(len(url) - 12, 0), len(url) + 1) if rng.random() < 0.7 else rng.randrange(len(url) + 1)
        tok = rng.choice(["--1", "-+1", "+-12", "+ 12", "-_1", "-1_", "+1_0", "- 1", "-\u00a01", "-１0", "+００1", "-0x", "+0x1", "--", "++", "-", "+"])
        return url[:i] + tok + url[i + (len(tok) if rng.random() < 0.5 else 0):]
    if m is not None and rng.random() < 0.10:
        # over- / under-run at the END of the body: a longer final blank run, one more value token, a final token cut short
        body = m[4]
        tail = rng.choice(["z", "y", "k", "h", "g", "0", "1", "f", "-10", "+100", ".", "%", "zz", "5z", "a"])
        cut = rng.choice([0, 0, 1, 2])
        return url[:m.start(4)] + body[:len(body) - cut] + tail
    if k < 0.12 and len(url) > 1:
        return url[:rng.randrange(len(url))]
    if k < 0.24 and url:
        i = rng.randrange(len(url))
        return url[:i] + url[i + 1:]
    if k < 0.40:
        i = rng.randrange(len(url) + 1)
        return url[:i] + rng.choice(ALPHABET) + url[i:]
    if k < 0.58 and url:
        i = rng.randrange(len(url))
        return url[:i] + rng.choice(ALPHABET) + url[i + 1:]
    if k < 0.64 and len(url) > 4:
        i = rng.randrange(len(url))
        j = min(len(url), i + rng.randint(1, 6))
        return url[:j] + url[i:j] * rng.randint(1, 3) + url[j:]
    if m is None:
        return url + rng.choice(ALPHABET)
    head = url[:m.start(1)]
    name, W, H, body = m[1], m[2], m[3], m[4]
    if k < 0.70:
        return f"{head}{name}/{H}/{W}/{body}"
    if k < 0.80:
        v = rng.choice(["0", "00", "1", "2", "99", "1000", "４", "٣", "-1", "+2", "1_0", " 3", "3 ", "", "1e2", str(int(W) + 1), str(max(int(W) - 1, 0))])
        return f"{head}{name}/{v}/{H}/{body}" if rng.random() < 0.5 else f"{head}{name}/{W}/{v}/{body}"
    if k < 0.88:
        ob = URL_RE.match(rng.choice(others))
        return f"{head}{name}/{W}/{H}/{ob[4] if ob else ''}"
    if k < 0.92:
        return f"{head}{rng.choice(['nurikabe', 'lits', 'x', '', 'mashu', 'slither', 'heyawake'])}/{W}/{H}/{body}"
    if k < 0.96:
        return rng.choice(["http://pzv.jp/p.html?", "https://puzz.link/p?", "ftp://x/p?", "https:///p?", "puzz.link/p?", "https://a/b/p?", ""]) + f"{name}/{W}/{H}/{body}"
    return f"{head}{name}/{W}/{H}/{body}/{rng.choice(['', '1', body])}"


def random_text(rng, unicode_=False):
    n = rng.choice([0, 1, 2, 5, 12, 30, 80])
    if unicode_:
        pools = [ALPHABET, "٠١٢٣４５६७", "\u0000é中\U0001f600퟿", "／？：．－", "\n\t\r"]
        return "".join(rng.choice(rng.choice(pools)) for _ in range(n))
    return "".join(rng.choice(ALPHABET) for _ in range(n))


def large_board_urls(rng, big):
    out = []
    for h, w in ([(40, 40), (60, 30), (1, 1200)] + ([(120, 120), (300, 10)] if big else [])):
        rooms = [[(y, x) for y in range(h) for x in range(w)]]
        out.append(("lits", lits.serialize_lits(h, w, rooms)))
        out.append(("heyawake", heyawake.serialize_heyawake(h, w, rooms, [5])))
        out.append(("norinori", norinori.serialize_norinori(h, w, rooms)))
        # serpentine single room (long DFS path)
        out.append(("nurikabe", nurikabe.serialize_nurikabe([[0] * w for _ in range(h)])))
    return out


def combinators_direct(ctx, rng, n):
    """Every library combinator's deserialize driven directly on hostile text with random env / idx."""
    for _ in range(n):
        term = K.gen_top(rng) if rng.random() < 0.6 else (K.gen_leaf(rng, allow_decint=True) or ["HexInt"])
        env = PS.CombinatorEnv(rng.choice([1, 1, 2, 3, 7]), rng.choice([1, 1, 2, 3, 7]))  # C15/C17: heights and widths >= 1
        c = K.build(term)
        base = ""
        if rng.random() < 0.6:
            try:
                v = K.value_of(term, (max(env.height, 1), max(env.width, 1)), rng)
                base = PS.serialize_problem(c, v, height=max(env.height, 1), width=max(env.width, 1))
            except Exception:
                base = ""
        text = base
        for _ in range(rng.randint(0, 3)):
            text = mutate(rng, text, [text]) if text else random_text(rng)
        if rng.random() < 0.2:
            text = random_text(rng, unicode_=True)
        idx = min(rng.choice([0, 0, 0, 1, len(text), max(len(text) - 1, 0)]), len(text))
        ctx.count("c17.combinator_direct")
        ctx.case(["comb", term, text, idx, env.height, env.width], nontrivial=True)
        w = {"term": term, "text": text[:300], "idx": idx, "env": [env.height, env.width]}
        try:
            r = c.deserialize(env, text, idx)
        except ValueError:
            ctx.count("c17.outcome.ValueError")
            continue
        except Exception as e:
            ctx.violation(f"combinator-crash:{type(e).__name__}:{term[0]}", f"{term[0]}.deserialize raised {e!r}", w)
            continue
        if r is None:
            ctx.count("c17.outcome.none")
            continue
        ctx.count("c17.outcome.problem")
        try:
            nread, items = r
            ok = isinstance(nread, int) and 0 <= nread <= len(text) - idx and isinstance(items, list)
        except Exception:
            ok = False
        if not ok:
            ctx.violation(f"combinator-bad-result:{term[0]}", f"{term[0]}.deserialize returned {r!r} for a text of {len(text)} chars at {idx}", w)


def run(ctx):
    rng = ctx.rng
    thorough = ctx.tier == "thorough"
    rounds = 300 if not thorough else 4000
    for t in range(rounds):
        urls = valid_urls(rng)
        allu = list(urls.values())
        for name, url in urls.items():
            judge_decode(ctx, name, url, "valid")
            for _ in range(12):
                text = url
                for _ in range(rng.choice([1, 1, 1, 2, 3])):
                    text = mutate(rng, text, allu)
                with ctx.guard(60):
                    judge_decode(ctx, name, text, "mutated")
                ctx.count("c17.mutated")
            # the same hostile text presented to a different decoder
            other = rng.choice(list(TARGETS))
            judge_decode(ctx, other, url, "cross")
        for name in TARGETS:
            for _ in range(3):
                judge_decode(ctx, name, random_text(rng), "random")
                ctx.count("c17.random_text")
                judge_decode(ctx, name, "https://puzz.link/p?" + name + "/" + random_text(rng), "random-after-head")
                judge_decode(ctx, name, random_text(rng, unicode_=True), "unicode")
                ctx.count("c17.unicode_text")
        # get_puzzle_info_from_url
        for text in allu[:3] + [random_text(rng), mutate(rng, allu[0], allu)]:
            try:
                r = PS.get_puzzle_info_from_url(text)
                if r is not None and not (isinstance(r, tuple) and len(r) == 3):
                    ctx.violation("info-bad-result", f"get_puzzle_info_from_url returned {r!r}", {"text": text[:200]})
            except ValueError:
                pass
            except Exception as e:
                ctx.violation(f"info-crash:{type(e).__name__}", f"get_puzzle_info_from_url raised {e!r}", {"text": text[:200]})
        combinators_direct(ctx, rng, 40)
    if ctx.shard < 4 or thorough:
        lb = large_board_urls(rng, thorough)
        for k, (name, url) in enumerate(lb):
            if k % 4 == ctx.shard % 4 or thorough:
                with ctx.guard(300):
                    judge_decode(ctx, name, url, "large-board")
                ctx.count("c17.large_boards")
    else:
        ctx.count("c17.large_boards", 0)
    if thorough and ctx.shard < 8:
        atheris_round(ctx)
    ctx.sample({"decoder": "sudoku", "text": "https://puzz.link/p?sudoku/4/4/--1g", "contract": "None | ValueError | re-encodable 4x4 problem"})


def atheris_round(ctx):
    """Coverage-guided fuzzing in a child process (libFuzzer leaves via _exit); the child applies the same contract and
    appends violations to a JSONL file."""
    out = os.path.join(HOME, "evidence", f".atheris-{os.getpid()}.jsonl")
    env = dict(os.environ)
    env["VERIF_ATHERIS_OUT"] = out
    runs = 200000
    try:
        p = subprocess.run([sys.executable, "-m", "vf.workloads.fuzz_codecs", f"-runs={runs}", f"-seed={ctx.seed * 16 + ctx.shard + 1}",
                            "-max_len=96", f"-target={ctx.shard % 8}"],
                           env=env, cwd=HOME, capture_output=True, text=True, timeout=1800)
    except subprocess.TimeoutExpired:
        ctx.inconc("atheris child timed out")
        return
    ctx.count("c17.atheris_runs", runs)
    if os.path.exists(out):
        for line in open(out):
            try:
                v = json.loads(line)
            except ValueError:
                continue
            if v.get("stat"):
                for k2, n in v["stat"].items():
                    ctx.count("c17.atheris." + k2, n)
            else:
                ctx.violation(v["mech"], v["what"], v["witness"])
        os.remove(out)
    else:
        ctx.inconc("atheris child wrote no report", {"stderr": p.stderr[-400:]})


def replay(w, ctx):
    if "decoder" in w:
        judge_decode(ctx, w["decoder"], w["text"], "replay")
    else:
        print(json.dumps(w)[:1000])
