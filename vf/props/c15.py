"""C15  Serializer combinators round-trip every value they accept.

Deciding method: generated combinator terms (OneOf alternatives distinguishable
by leading character) x generated in-domain values are pushed through the real
serialize_problem / deserialize_problem; a recording wrapper on every
Combinator.serialize checks the local leaf law (what one leaf wrote, the same
leaf reads back) on every internal call, so a failing top-level round trip comes
with the innermost leaf that broke."""
import functools
import json

from cspuz import problem_serializer as PS

from ..workloads import codecs as K

RULE = ("random combinator terms over FixStr, Dict, Spaces, DecInt, HexInt, IntSpaces, MultiDigit, OneOf, Tupl, Seq, Grid (env-sized and "
        "fixed), Rooms, ValuedRooms (depth <= 4) x values hitting the limits (runs at/over max_consecutive, 0/15/16/255/256/4095, partial "
        "digit groups at row ends, IntSpaces runs beyond max_num_spaces) x boards 1..6 x 1..6 incl. 1xN / Nx1, rooms in random room/cell "
        "order; one evaluation = one top-level round trip; distinct by (term, env, value); non-trivial when the text is non-empty")
ASSUMPTIONS = ["'value the composition accepts' = generated structurally inside each combinator's domain (no silently dropped items)",
               "terms in which a DecInt can be followed by a decimal digit are not generated (no terminator exists)"]
REQUIRED = ["c15.roundtrips", "c15.url_helper_roundtrips", "c15.url_helper_falsy_values", "c15.history_checked", "c15.leaf_law_checked", "c15.term.Rooms", "c15.term.ValuedRooms", "c15.term.Grid", "c15.term.Seq", "c15.term.Tupl",
            "c15.term.OneOf", "c15.leaf.Spaces", "c15.leaf.HexInt", "c15.leaf.IntSpaces", "c15.leaf.MultiDigit", "c15.leaf.Dict", "c15.leaf.DecInt",
            "c15.single_row_or_column", "c15.rooms_unsorted_cells"]
LEAVES = ("FixStr", "Dict", "Spaces", "DecInt", "HexInt", "IntSpaces", "MultiDigit")
_state = {"ctx": None}
_installed = []


def plan(tier):
    return {"shards": 16}


def _wrap(cls):
    orig = cls.__dict__["serialize"]
    name = cls.__name__

    @functools.wraps(orig)
    def serialize(self, env, data, idx):
        res = orig(self, env, data, idx)
        ctx = _state["ctx"]
        if ctx is not None and res is not None:
            ctx.count("c15.ser." + name)
            if name in LEAVES:
                k, s = res
                ctx.count("c15.leaf." + name)
                try:
                    back = self.deserialize(env, s, 0)
                except Exception as e:
                    back = ("raised", repr(e))
                want = list(data[idx:idx + k])
                ok = back is not None and back[0] == len(s)
                if ok:
                    got = list(back[1])
                    if name == "MultiDigit":
                        ok = got[:len(want)] == want and all(x == 0 for x in got[len(want):])
                    else:
                        ok = got == want
                ctx.count("c15.leaf_law_checked")
                if not ok:
                    ctx.violation(f"leaf-law:{name}", f"{name} wrote {s!r} for items {want!r} but reads it back as {back!r}",
                                  {"leaf": name, "items": repr(want), "text": s, "case": ctx.current_case})
        return res

    cls.serialize = serialize
    _installed.append(cls)


def install(ctx):
    if not _installed:
        for name in LEAVES + ("OneOf", "Tupl", "Seq", "Grid", "Rooms", "ValuedRooms"):
            _wrap(getattr(PS, name))
    _state["ctx"] = ctx


def scramble_in_place(v, rng):
    """Edit a decoded value in place (lists only; tuples are rebuilt by their owners): overwrite leaves, reverse lists."""
    if isinstance(v, list):
        for i, x in enumerate(v):
            if isinstance(x, (list, tuple)):
                scramble_in_place(x, rng)
            else:
                v[i] = "junk" if not isinstance(x, int) or isinstance(x, bool) else x + 7
        v.reverse()
        if rng.random() < 0.3:
            v.append("extra")
    elif isinstance(v, tuple):
        for x in v:
            scramble_in_place(x, rng)


def mech_of(term, env):
    tops = term[0]
    deg = "1xN" if env and (env[0] == 1 or env[1] == 1) else "HxW"
    return f"{tops}:{deg}"


def contains(t, name):
    if t[0] == name:
        return True
    if t[0] in ("OneOf", "Tupl"):
        return any(contains(x, name) for x in t[1])
    if t[0] in ("Seq", "Grid", "ValuedRooms"):
        return contains(t[1], name)
    return False


def roundtrip(ctx, term, env, value, c=None):
    ctx.current_case = {"term": term, "env": list(env), "value": repr(value)[:600]}
    for nm in ("Rooms", "ValuedRooms", "Grid", "Seq", "Tupl", "OneOf"):
        if contains(term, nm):
            ctx.count("c15.term." + nm)
    if env[0] == 1 or env[1] == 1:
        ctx.count("c15.single_row_or_column")
    mech_tail = ":rooms" if (contains(term, "Rooms") or contains(term, "ValuedRooms")) else ""
    deg = ":1xN" if (env[0] == 1 or env[1] == 1) else ""
    c = c if c is not None else K.build(term)
    try:
        text = PS.serialize_problem(c, value, height=env[0], width=env[1])
    except Exception as e:
        ctx.case([term, list(env), repr(value)], nontrivial=False)
        ctx.violation(f"serialize-raises:{type(e).__name__}{mech_tail}{deg}", f"serialize_problem raised {e!r} on an in-domain value", ctx.current_case)
        return
    ctx.case([term, list(env), repr(value)], nontrivial=len(text) > 0)
    ctx.count("c15.roundtrips")
    try:
        back = PS.deserialize_problem(c, text, height=env[0], width=env[1])
        raw = c.deserialize(PS.CombinatorEnv(env[0], env[1]), text, 0)
    except Exception as e:
        ctx.violation(f"deserialize-raises:{type(e).__name__}{mech_tail}{deg}", f"deserializing own output {text!r} raised {e!r}",
                      dict(ctx.current_case, text=text))
        return
    if back is None or raw is None:
        ctx.violation(f"own-output-rejected{mech_tail}{deg}", f"own output {text!r} is not accepted by the deserializer", dict(ctx.current_case, text=text))
        return
    if raw[0] != len(text):
        ctx.violation(f"consumed-length{mech_tail}", f"deserializer consumed {raw[0]} of {len(text)} characters", dict(ctx.current_case, text=text))
        return
    a, b = K.canon_value(term, value), K.canon_value(term, back)
    if a == b:
        # history: a caller that edits a loaded problem in place must not influence later decodes of the same combinator object
        scramble_in_place(back, ctx.rng)
        try:
            again = PS.deserialize_problem(c, text, height=env[0], width=env[1])
            text2 = PS.serialize_problem(c, value, height=env[0], width=env[1])
        except Exception as e:
            ctx.violation(f"history:raises:{type(e).__name__}{mech_tail}", f"second use of the same combinator raised {e!r}", dict(ctx.current_case, text=text))
            return
        ctx.count("c15.history_checked")
        if again is None or K.canon_value(term, again) != a:
            ctx.violation(f"history:decode-after-caller-mutation:{term[0]}", "after the caller edited an earlier decoded value in place, decoding the same text "
                          "with the same combinator gives a different value", dict(ctx.current_case, text=text, again=repr(again)[:400]))
            return
        if text2 != text:
            ctx.violation(f"history:encode-not-repeatable:{term[0]}", f"serializing the same value twice gives {text!r} then {text2!r}", ctx.current_case)
            return
    if a != b:
        sub = ""
        if term[0] == "ValuedRooms":
            ra, rb = K.canon_rooms(value[0]), K.canon_rooms(back[0])
            sub = ":values-on-wrong-rooms" if ra == rb else ":rooms-differ"
        ctx.violation(f"roundtrip-differs:{term[0]}{sub}{deg}", f"decode(encode(v)) != v; text {text!r}",
                      dict(ctx.current_case, text=text, back=repr(back)[:600]))


def run(ctx):
    rng = ctx.rng
    install(ctx)
    thorough = ctx.tier == "thorough"
    n_terms = 1500 if not thorough else 20000
    for t in range(n_terms):
        term = K.gen_top(rng)
        comb = K.build(term)  # ONE combinator object per term, reused for boards of different sizes (as the puzzle modules do)
        for _ in range(6):
            env = (rng.choice([1, 1, 2, 3, 4, 5, 6]), rng.choice([1, 1, 2, 3, 4, 5, 6]))
            try:
                value = K.value_of(term, env, rng)
            except RuntimeError:
                ctx.count("c15.value_gen_stuck")
                continue
            if term[0] in ("Rooms", "ValuedRooms"):
                rooms = value if term[0] == "Rooms" else value[0]
                if any(r != sorted(r) for r in rooms):
                    ctx.count("c15.rooms_unsorted_cells")
            with ctx.guard(60):
                roundtrip(ctx, term, env, value, comb)
        if t < 3:
            ctx.sample({"term": term})
    # the URL helpers around the combinators (serialize_problem_as_url / deserialize_problem_as_url), also for top-level values that
    # are falsy in Python (0, '', [], ()): a decoded problem is a problem whatever its truth value
    falsy = [(["HexInt"], 0), (["DecInt"], 0), (["Dict", [0, 7], ["z", "y"]], 0), (["Dict", ["", "x"], ["e", "f"]], ""),
             (["Seq", ["HexInt"], 0], []), (["Tupl", []], ()), (["Grid", ["HexInt"], 0, 0], [])]
    for t in range(40 if not thorough else 600):
        if t < len(falsy) * 2:
            term, value = falsy[t % len(falsy)]
            env = (rng.randint(1, 6), rng.randint(1, 6))
        else:
            term = K.gen_top(rng)
            env = (rng.randint(1, 6), rng.randint(1, 6))
            try:
                value = K.value_of(term, env, rng)
            except RuntimeError:
                continue
        ctx.current_case = {"term": term, "env": list(env), "value": repr(value)[:300], "via": "url-helpers"}
        ctx.case(["url", term, list(env), repr(value)], nontrivial=True)
        try:
            comb = K.build(term)
            url = PS.serialize_problem_as_url(comb, "vfpuz", env[0], env[1], value)
            back = PS.deserialize_problem_as_url(comb, url, allowed_puzzles="vfpuz", return_size=True)
            plain = PS.deserialize_problem_as_url(comb, url)
        except Exception as e:
            ctx.violation(f"url-helpers:raises:{type(e).__name__}", f"URL helpers raised {e!r} on an in-domain value", ctx.current_case)
            continue
        ctx.count("c15.url_helper_roundtrips")
        if not bool(value):
            ctx.count("c15.url_helper_falsy_values")
        want = K.canon_value(term, value)
        if back is None or plain is None or len(back) != 3 or tuple(back[:2]) != tuple(env) or K.canon_value(term, back[2]) != want \
                or K.canon_value(term, plain) != want:
            ctx.violation("url-helpers:roundtrip-differs" + (":falsy-value" if not bool(value) else ""),
                          f"deserialize_problem_as_url(serialize_problem_as_url(v)) gave {back!r} / {plain!r} for {value!r} on a {env[0]}x{env[1]} board",
                          dict(ctx.current_case, url=url))
    # all orderings of rooms and of cells within rooms (exhaustive for <= 3 rooms of <= 3 cells on a 2x3 board)
    if ctx.shard == 0 or thorough:
        import itertools

        ids_list = [[[0, 0, 1], [2, 2, 1]], [[0, 1, 1], [0, 0, 1]], [[0, 0, 0], [1, 1, 2]]]
        for ids in ids_list:
            rooms = {}
            for y in range(2):
                for x in range(3):
                    rooms.setdefault(ids[y][x], []).append((y, x))
            rl = list(rooms.values())
            for perm in itertools.permutations(range(len(rl))):
                for cellperms in itertools.product(*[list(itertools.permutations(r)) for r in rl]):
                    rs = [list(cellperms[i]) for i in perm]
                    vals = [10 + i for i in perm]
                    roundtrip(ctx, ["ValuedRooms", ["HexInt"]], (2, 3), (rs, vals))
                    ctx.count("c15.rooms_unsorted_cells")
    _state["ctx"] = None


def replay(w, ctx):
    install(ctx)
    print("witness:", json.dumps(w)[:1500])
    print("values are regenerated from the seed; the witness holds the term, env and repr(value)")
