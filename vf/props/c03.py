"""C03  Sugar-family backends: emitted CSP text and parsed replies are faithful.

Deciding method: M-WIRE (monitor at the client boundary of the real backend
classes) + M-SOLVE end to end, with the protocol stand-in at the far end of
 (a) in-process subclasses overriding only _call_solver (bulk),
 (b) the unmodified classes + fake extension modules pycsugar / enigma_csp / cspuz_core,
 (c) the unmodified classes + the real subprocess path (stubs/bin/sugar)."""
import contextlib
import os
import random
import sys

import cspuz
from cspuz import graph
from cspuz.expr import BoolVar, IntVar

from ..monitors import msolve, mwire, standin
from ..refs import ref_brute, ref_sugar
from ..workloads import progs

RULE = ("random typed programs (C01 generator, every operator) and programs with the two native graph operators, sent through each "
        "of the five backend names in answer-finder and deduction mode (all/some/no answer keys), through Solver and by driving the "
        "backend classes directly with sparse unsorted variable ids; one evaluation = one protocol exchange checked by M-WIRE; "
        "distinct by (program, keys, backend, mode); non-trivial when the exchange carried >= 1 constraint line with a variable "
        "and the reply was checked against sol")
ASSUMPTIONS = [
    "no real Sugar/csugar/cspuz_core offline: the far end is the stand-in (refs/ref_sugar), which implements the reply formats of CspuzSugarInterface.java",
    "meaning of graph-active-vertices-connected / graph-division taken from their documented names and argument layout",
    "a line such as '(|| )' with zero operands is accepted as a real Sugar would",
]
REQUIRED = ["mwire.exchanges", "mwire.replies_checked", "mwire.lines_compared", "mwire.mode.finder", "mwire.mode.deduction",
            "mwire.class.sugar", "mwire.class.sugar_extended", "mwire.class.csugar", "mwire.class.enigma_csp", "mwire.class.cspuz_core",
            "c03.native.avc", "c03.native.gdiv", "c03.direct", "c03.subprocess", "c03.stubmodule", "mwire.reply.sat", "mwire.reply.unsat",
            "c03.negative_value_reply"]
NAMES = ["sugar", "sugar_extended", "csugar", "enigma_csp", "cspuz_core"]
HOME = os.environ.get("VERIF_HOME", "/verif")


def plan(tier):
    return {"shards": 16}


# ----------------------------------------------------------------------------- native programs
def gen_native(rng):
    n = rng.randint(1, 5)
    pairs = [(u, v) for u in range(n) for v in range(u + 1, n)]
    edges = [list(e) for e in pairs if rng.random() < 0.6]
    if rng.random() < 0.2 and edges:
        edges.append(list(rng.choice(edges)))  # a parallel edge
    rng.shuffle(edges)
    if rng.random() < 0.5:
        act = [rng.choice(["var", "var", "notvar", "and", True, False]) for _ in range(n)]
        pins = [rng.choice([None, None, True, False]) for _ in range(n)]
        return {"kind": "avc", "n": n, "edges": edges, "active": act, "pins": pins}
    sizes = [rng.choice([None, None, rng.randint(1, max(1, n)), "var"]) for _ in range(n)]
    border = [rng.choice(["var", "var", "var", True, False]) for _ in edges]
    pins = [rng.choice([None, None, True, False]) for _ in edges]
    return {"kind": "gdiv", "n": n, "edges": edges, "sizes": sizes, "border": border, "pins": pins}


def build_native(d, s):
    g = graph.Graph(d["n"])
    for u, v in d["edges"]:
        g.add_edge(u, v)
    if d["kind"] == "avc":
        vs = [s.bool_var() for _ in range(d["n"])]
        extra = s.bool_var()
        act = []
        for v, spec in zip(vs, d["active"]):
            act.append(v if spec == "var" else ~v if spec == "notvar" else (v & extra) if spec == "and" else spec)
        graph.active_vertices_connected(s, act, g, use_graph_primitive=True)
        for v, p in zip(vs, d["pins"]):
            if p is not None:
                s.ensure(v if p else ~v)
        return vs + [extra]
    bs = [s.bool_var() for _ in d["edges"]]
    border = [b if spec == "var" else spec for b, spec in zip(bs, d["border"])]
    sizes = []
    keys = list(bs)
    for spec in d["sizes"]:
        if spec == "var":
            iv = s.int_var(1, d["n"])
            sizes.append(iv)
            keys.append(iv)
        else:
            sizes.append(spec)
    graph.division_connected_variable_groups_with_borders(s, group_size=sizes, is_border=border, graph=g, use_graph_primitive=True)
    for b, p in zip(bs, d["pins"]):
        if p is not None:
            s.ensure(b if p else ~b)
    return keys


# ----------------------------------------------------------------------------- drivers
def via_solver(ctx, st, ws, backend, bname, build, desc, mode, keyidx):
    s = cspuz.Solver()
    keys_pool = build(s)
    ctx.current_case = {"desc": desc, "backend": bname, "mode": mode, "keys": keyidx}
    ev0, f0, m0 = ws.events, ws.fired, st.fired
    try:
        if mode == "finder":
            s.find_answer(backend=backend)
        else:
            ks = [keys_pool[i] for i in keyidx if i < len(keys_pool)]
            if ks:
                ctx.count("c03.key_form.%d" % progs.register_keys(s, ks, len(repr(desc)) + len(ks)))
            ws.expect_key_names = {mwire.name_of(v) for v in ks}
            try:
                s.solve(backend=backend)
            finally:
                ws.expect_key_names = None
    except OverflowError:
        ctx.inconc("stand-in overflow", ctx.current_case)
        return
    except ref_sugar.WireError:
        pass  # reported by M-WIRE
    except Exception as e:
        ctx.violation(f"backend-raises:{type(e).__name__}", f"{bname} {mode} raised {e!r}", ctx.current_case)
        return
    has_var = len(s.variables) > 0 and len(s.constraints) > 0
    ctx.case([desc, bname, mode, keyidx], nontrivial=bool(has_var and ws.events > ev0), n=max(1, ws.events - ev0))
    for v in s.variables:
        if isinstance(v, IntVar) and type(v.sol) is int and v.sol < 0:
            ctx.count("c03.negative_value_reply")
            break


def prog_builder(p):
    def build(s):
        vars_ = progs.declare(s, p["decls"])
        with (progs.shared() if len(repr(p)) % 2 else contextlib.nullcontext()):
            for c in p["constraints"]:
                s.ensure(progs.build(c, vars_))
        return vars_
    return build


def direct_drive(ctx, ws, log, rng):
    """Backend classes driven without Solver: sparse, unsorted, interleaved ids; arbitrary key masks."""
    n = rng.randint(1, 5)
    ids = rng.sample(range(0, 14), n)
    decls, variables = [], []
    for i in ids:
        if rng.random() < 0.5:
            decls.append(["b"])
            variables.append(BoolVar(i))
        else:
            lo = rng.choice([0, -3, 2, -1])
            hi = lo + rng.choice([0, 1, 2, 3])
            decls.append(["i", lo, hi])
            variables.append(IntVar(i, lo, hi))
    g = progs.Gen(rng, decls, depth=rng.choice([1, 2, 3]))
    asts = [g.bool_(g.depth) for _ in range(rng.choice([1, 2, 3]))]
    cons = [progs.build(a, variables) for a in asts]
    bname = rng.choice(NAMES)
    cls = standin.make(bname, log)
    mode = "finder" if bname == "sugar" or rng.random() < 0.5 else "deduction"
    mask = [rng.random() < 0.5 for _ in variables]
    ctx.current_case = {"direct": True, "ids": ids, "decls": decls, "constraints": asts, "backend": bname, "mode": mode, "mask": mask}
    ws.expect = (variables, cons, mask)
    ev0 = ws.events
    try:
        be = cls(variables)
        if rng.random() < 0.5:
            be.add_constraint(cons)
        else:
            for c in cons:
                be.add_constraint(c)
        if mode == "finder":
            ret = be.solve()
        else:
            ret = be.solve_irrefutably(mask)
    except ref_sugar.WireError:
        ws.expect = None
        return
    except OverflowError:
        ws.expect = None
        ctx.inconc("stand-in overflow")
        return
    except Exception as e:
        ws.expect = None
        ctx.violation(f"backend-raises:{type(e).__name__}", f"direct {bname} {mode} raised {e!r}", ctx.current_case)
        return
    ws.expect = None
    ctx.count("c03.direct")
    ctx.case(ctx.current_case, nontrivial=ws.events > ev0)
    # end to end: what came back is a genuine model / the exact facts
    try:
        if mode == "finder":
            sat, _ = ref_brute.satisfiable(variables, cons)
            if sat != ret:
                ctx.violation("direct-wrong-sat", f"direct {bname}.solve() returned {ret}, satisfiable={sat}", ctx.current_case)
            elif ret:
                why = ref_brute.check_model(variables, cons, {v.id: v.sol for v in variables})
                if why:
                    ctx.violation("direct-model-not-genuine", why, ctx.current_case)
        else:
            keys = [v.id for v, k in zip(variables, mask) if k]
            sat, table, _ = ref_brute.facts(variables, cons, keys)
            if sat != ret:
                ctx.violation("direct-wrong-sat", f"direct {bname}.solve_irrefutably returned {ret}, satisfiable={sat}", ctx.current_case)
            elif ret:
                for v, k in zip(variables, mask):
                    want = table[v.id] if k else None
                    if v.sol != want or type(v.sol) is not type(want):
                        ctx.violation("direct-facts-wrong", f"id {v.id}: sol {v.sol!r}, expected {want!r}", ctx.current_case)
                        break
    except ref_brute.IllTyped:
        pass


def run(ctx):
    rng = ctx.rng
    st = msolve.install(ctx, owner="C03", brute_cap=1 << 12)
    ws = mwire.install(ctx)
    log = standin.WireLog()
    classes = {n: standin.make(n, log) for n in NAMES}
    n_prog = 900 if ctx.tier == "quick" else 8000
    for k in range(n_prog):
        p = progs.gen_program(rng, max_vars=5, cap=1024, depth=rng.choice([1, 2, 3, 4]))
        keyidx = [i for i in range(len(p["decls"])) if rng.random() < 0.6] if rng.random() < 0.8 else []
        names = NAMES if ctx.tier == "thorough" else rng.sample(NAMES, 2)
        for bn in names:
            log.clear()
            with ctx.guard(40):
                via_solver(ctx, st, ws, classes[bn], bn, prog_builder(p), p, "finder", [])
            with ctx.guard(40):
                via_solver(ctx, st, ws, classes[bn], bn, prog_builder(p), p, "deduction", keyidx)
        if k < 1:
            ctx.sample({"program": p, "keys": keyidx})
    for k in range(n_prog // 2):
        d = gen_native(rng)
        bn = rng.choice(NAMES)
        keyidx = [i for i in range(12) if rng.random() < 0.7]
        log.clear()
        with ctx.guard(40):
            via_solver(ctx, st, ws, classes[bn], bn, lambda s: build_native(d, s), d, rng.choice(["finder", "deduction"]), keyidx)
        ctx.count("c03.native." + d["kind"])
        if k < 1:
            ctx.sample(d)
            if log.events:
                ctx.sample({"wire_text": log.events[0]["text"], "reply": log.events[0]["reply"]})
    for k in range(n_prog):
        with ctx.guard(40):
            direct_drive(ctx, ws, log, rng)
    # (b) unmodified classes + fake extension modules, (c) real subprocess
    mods = os.path.join(HOME, "stubs", "mods")
    if mods not in sys.path:
        sys.path.append(mods)
    old = (cspuz.config.backend_path, cspuz.config.solver_timeout)
    cspuz.config.backend_path = os.path.join(HOME, "stubs", "bin", "sugar")
    try:
        for k in range(6 if ctx.tier == "quick" else 120):
            p = progs.gen_program(rng, max_vars=4, cap=256, depth=2)
            keyidx = [i for i in range(len(p["decls"])) if rng.random() < 0.6]
            bn = rng.choice(["csugar", "enigma_csp", "cspuz_core"])
            with ctx.guard(40):
                via_solver(ctx, st, ws, bn, bn, prog_builder(p), p, rng.choice(["finder", "deduction"]), keyidx)
            ctx.count("c03.stubmodule")
            cspuz.config.solver_timeout = rng.choice([None, 30.0])
            import warnings

            with warnings.catch_warnings():
                warnings.simplefilter("ignore")
                with ctx.guard(120):
                    via_solver(ctx, st, ws, "sugar", "sugar", prog_builder(p), p, "finder", [])
                with ctx.guard(120):
                    via_solver(ctx, st, ws, "sugar_extended", "sugar_extended", prog_builder(p), p, "deduction", keyidx)
            ctx.count("c03.subprocess", 2)
    finally:
        cspuz.config.backend_path, cspuz.config.solver_timeout = old
    mwire.uninstall()
    msolve.uninstall()


def replay(w, ctx):
    st = msolve.install(ctx, owner="C03", brute_cap=1 << 12)
    ws = mwire.install(ctx)
    log = standin.WireLog()
    c = w.get("case") or w
    if c.get("direct"):
        print("direct-drive cases are replayed by re-running the shard with the same seed")
        return
    d = c["desc"]
    bn = c["backend"]
    build = (lambda s: build_native(d, s)) if "kind" in d else prog_builder(d)
    via_solver(ctx, st, ws, standin.make(bn, log), bn, build, d, c["mode"], c["keys"])
