"""C06  active_edges_single_cycle / single_path admit exactly one simple cycle / path.

Deciding method: the real functions are executed with the edge subset fixed; the
returned 'passed' array is registered as answer keys and Solver.solve() is
observed, so 'true exactly at the visited vertices in EVERY satisfying
assignment' is decided by the exactness of solve (forced value, never None).
Oracle: degree/union-find definitions and the lattice geometry."""
import itertools

import cspuz
from cspuz import graph

from ..monitors import msolve, mwire, standin
from ..refs import graphdefs as G
from ..refs import lattice as L
from ..workloads import graphdrv as D

RULE = ("cycle: all multigraphs (mult<=2, <=6 edges) on <=4 vertices up to isomorphism x all edge subsets x (aux via z3, primitive via "
        "stand-in deduction); frames 1x1..2x2 (+1x3, 3x1) x all segment subsets, frames up to 3x3 (quick) / 3x4, 4x4 (thorough) by "
        "accepted-set enumeration against all simple cycles of the lattice; path (primitive only): same graphs and frames <= 2x2; "
        "one evaluation = one solve()/find_answer observed; distinct by (function, graph/frame, subset, encoding)")
ASSUMPTIONS = ["z3 decides the posted program correctly (SAT re-validated by M-SOLVE)",
               "primitive route: stand-in semantics of graph-active-vertices-connected on the line graph"]
REQUIRED = ["cyc.big_frames", "cyc.long_cycle_graphs", "cyc.big_cycle_len_ge20", "cyc.cases", "cyc.want.valid", "cyc.want.invalid", "cyc.passed_checked", "cyc.primitive", "cyc.frame", "cyc.parallel",
            "cyc.accepted_set_solves", "path.cases", "path.want.valid", "path.want.invalid", "path.frame", "cyc.empty_subset", "cyc.form.const", "cyc.form.mixed",
            "path.form.const"]


def plan(tier):
    return {"shards": 16}


def judge(ctx, tag, s, passed_vars, pattern, n, edges, want, be, desc):
    """solve() with `passed` as keys; compare with the definition."""
    s.add_answer_key(passed_vars)
    ctx.current_case = {"tag": tag, "desc": desc, "pattern": list(map(int, pattern))}
    st = msolve.state()
    f0 = st.fired
    try:
        res = s.solve(backend=D.backend_for(ctx, s, be))
    except OverflowError:
        ctx.inconc("stand-in overflow", ctx.current_case)
        return
    except Exception as e:
        ctx.violation(f"{tag}:solve-raises:{type(e).__name__}", f"solve raised {e!r}", ctx.current_case)
        return
    ctx.count(f"{tag}.cases")
    ctx.count(f"{tag}.want." + ("valid" if want else "invalid"))
    ctx.case([tag, desc, list(map(int, pattern))], nontrivial=True)
    if st.fired != f0:
        return
    enc = "prim" if desc.get("primitive") else "aux"
    if res != want:
        what = "empty" if not any(pattern) else "nonempty"
        ctx.violation(f"{tag}:{'accepts-invalid' if res else 'rejects-valid'}:{enc}:{what}",
                      f"{tag} ({enc}): satisfiable={res} but definition={want}", ctx.current_case)
        return
    if res:
        vis = G.visited(n, edges, pattern)
        got = [v.sol for v in passed_vars]
        ctx.count(f"{tag}.passed_checked")
        if got != vis or any(type(x) is not bool for x in got):
            ctx.violation(f"{tag}:passed-array-wrong:{enc}", f"returned array {got} != visited vertices {vis}", ctx.current_case)


def graph_case(ctx, fn, n, edges, prim, be, rng, patterns=None):
    g = D.mk_graph(n, edges)
    m = len(edges)
    tag = "cyc" if fn == "cycle" else "path"
    desc = {"fn": fn, "n": n, "edges": [list(e) for e in edges], "primitive": prim}
    work = []
    for pattern in (patterns if patterns is not None else D.all_patterns(m)):
        work.append((pattern, "var"))
        r = rng.random()
        if r < 0.25:
            work.append((pattern, "const"))  # edges whose state is already known, given as Python bools
        elif r < 0.5:
            work.append((pattern, "mixed"))
    for pattern, form in work:
        s = cspuz.Solver()
        if form == "var":
            ev = [s.bool_var() for _ in range(m)]
            s.ensure([v if p else ~v for v, p in zip(ev, pattern)])
        else:
            ev, pins = D.apply_form(s, form, pattern, rng)
            s.ensure(pins)
            desc = dict(desc, form=form)
            ctx.count(f"{tag}.form.{form}")
        try:
            if fn == "cycle":
                arr = cspuz.array.BoolArray1D(ev) if sum(pattern) % 2 else ev
                passed = graph.active_edges_single_cycle(s, arr, g, use_graph_primitive=prim)
                want = G.single_cycle_or_empty(n, edges, pattern)
            else:
                parr = cspuz.array.BoolArray1D(ev) if sum(pattern) % 2 else ev
                if sum(pattern) % 3 == 0:
                    # the flag left to the configuration (as a caller on a native back end would have it)
                    old_flag = cspuz.config.use_graph_primitive
                    cspuz.config.use_graph_primitive = True
                    try:
                        passed = graph.active_edges_single_path(s, parr, g)
                    finally:
                        cspuz.config.use_graph_primitive = old_flag
                else:
                    passed = graph.active_edges_single_path(s, parr, g, use_graph_primitive=True)
                want = G.single_path(n, edges, pattern) or not any(pattern)
        except Exception as e:
            ctx.violation(f"{tag}:post-raises:{type(e).__name__}", f"posting raised {e!r}", {"desc": desc})
            return
        if len(passed) != n:
            ctx.violation(f"{tag}:result-shape", f"returned array has {len(passed)} entries for {n} vertices", {"desc": desc})
            return
        judge(ctx, tag, s, list(passed), pattern, n, edges, want, be if (prim or fn == "path") else None, desc)
        if not any(pattern):
            ctx.count(f"{tag}.empty_subset")
    if prim:
        ctx.count(f"{tag}.primitive")
    if len(set(map(frozenset, edges))) < m:
        ctx.count(f"{tag}.parallel")


def frame_pointwise(ctx, fn, h, w, prim, be, patterns=None):
    segs = L.segments(h, w)
    n, edges = L.as_graph(h, w)
    tag = "cyc" if fn == "cycle" else "path"
    desc = {"fn": fn, "frame": [h, w], "primitive": prim}
    for pattern in (patterns or D.all_patterns(len(segs))):
        s = cspuz.Solver()
        if ctx.rng.random() < 0.3:
            # a frame over arrays the caller supplies (negations / compound expressions, as loop_dir-style code builds them)
            acts, pins = D.apply_form(s, "mixed-nc", pattern, ctx.rng)
            by = dict(zip(segs, acts))
            hor = cspuz.array.BoolArray2D([[by[("h", y, x)] for x in range(w)] for y in range(h + 1)]) if w else None
            ver = cspuz.array.BoolArray2D([[by[("v", y, x)] for x in range(w + 1)] for y in range(h)]) if h else None
            side = ctx.rng.choice(["both", "both", "h", "v"])
            if side == "h" and hor is not None:
                # only one array is the caller's; the other is the frame's own and is pinned through the frame
                fr = cspuz.BoolGridFrame(s, h, w, horizontal=hor)
                pins = pins + [(fr.vertical[y, x] if p else ~fr.vertical[y, x]) for (k, y, x), p in zip(segs, pattern) if k == "v"]
            elif side == "v" and ver is not None:
                fr = cspuz.BoolGridFrame(s, h, w, vertical=ver)
                pins = pins + [(fr.horizontal[y, x] if p else ~fr.horizontal[y, x]) for (k, y, x), p in zip(segs, pattern) if k == "h"]
            else:
                fr = cspuz.BoolGridFrame(s, h, w, horizontal=hor, vertical=ver)
            s.ensure(pins)
            ctx.count(f"{tag}.frame_given_arrays")
        else:
            fr = cspuz.BoolGridFrame(s, h, w)
            s.ensure([L.frame_var(fr, sg) if p else ~L.frame_var(fr, sg) for sg, p in zip(segs, pattern)])
        try:
            if fn == "cycle":
                passed = graph.active_edges_single_cycle(s, fr, use_graph_primitive=prim)
                want = G.single_cycle_or_empty(n, edges, pattern)
            else:
                passed = graph.active_edges_single_path(s, fr, use_graph_primitive=True)
                want = G.single_path(n, edges, pattern) or not any(pattern)
        except Exception as e:
            ctx.violation(f"{tag}:post-raises:{type(e).__name__}", f"posting raised {e!r}", {"desc": desc})
            return
        if getattr(passed, "shape", None) != (h + 1, w + 1):
            ctx.violation(f"{tag}:result-shape", f"returned shape {getattr(passed, 'shape', None)} != lattice shape {(h + 1, w + 1)}", {"desc": desc})
            return
        pv = [passed[y, x] for y in range(h + 1) for x in range(w + 1)]  # row-major = point_id order
        judge(ctx, tag, s, pv, pattern, n, edges, want, be if (prim or fn == "path") else None, desc)
        if not any(pattern):
            ctx.count(f"{tag}.empty_subset")
    ctx.count(f"{tag}.frame")
    if prim:
        ctx.count(f"{tag}.primitive")


def frame_accepted(ctx, h, w):
    segs = L.segments(h, w)
    n, edges = L.as_graph(h, w)
    cycles = L.simple_cycles(n, edges)
    oset = {tuple(1 if k in c else 0 for k in range(len(segs))) for c in cycles}
    oset.add(tuple([0] * len(segs)))
    box = {}

    def mkvars(s):
        fr = cspuz.BoolGridFrame(s, h, w)
        box["frame"] = fr
        return [L.frame_var(fr, sg) for sg in segs]

    def post(s, vs):
        box["passed"] = graph.active_edges_single_cycle(s, box["frame"])

    def on_model(pat):
        vis = G.visited(n, edges, pat)
        p = box["passed"]
        got = [p[y, x].sol for y in range(h + 1) for x in range(w + 1)]
        ctx.count("cyc.passed_checked")
        if got != vis:
            return ("cyc:passed-array-wrong:aux", f"passed array {got} != visited {vis}")

    D.accepted_set(ctx, "cyc", len(segs), post, oset, desc={"fn": "cycle", "frame": [h, w], "cycles": len(cycles)}, mkvars=mkvars,
                   on_model=on_model, cap=50000)
    ctx.count("cyc.frame")


def big_stage(ctx, rng, be, thorough):
    """Frames and graphs too large to enumerate: long simple cycles (the rank range of the auxiliary encoding must cover half their
    length), and their near misses - two disjoint cycles, a cycle with a gap (a path), a cycle with an extra chord segment."""
    from ..refs import planted

    for t in range(2 if not thorough else 30):
        h, w = rng.choice([(5, 5), (6, 6), (4, 8), (7, 7), (3, 10), (6, 5)])
        segs = L.segments(h, w)
        pid = lambda q: q[0] * (w + 1) + q[1]  # noqa
        n, edges = L.as_graph(h, w)
        eidx = {frozenset(e): k for k, e in enumerate(edges)}

        def pat(cyc):
            p = [0] * len(segs)
            for a, b in cyc:
                p[eidx[frozenset((pid(a), pid(b)))]] = 1
            return p

        pats = []
        c1 = planted.random_cycle(rng, h + 1, w + 1, min_faces=max(2, (h * w) // 2))
        p1 = pat(c1)
        pats.append(tuple(p1))
        if sum(p1) >= 20:
            ctx.count("cyc.big_cycle_len_ge20")
        gap = list(p1)
        gap[rng.choice([k for k, v in enumerate(p1) if v])] = 0
        pats.append(tuple(gap))
        chord = list(p1)
        chord[rng.choice([k for k, v in enumerate(p1) if not v])] = 1
        pats.append(tuple(chord))
        # two small cycles in opposite corners
        two = [0] * len(segs)
        for (y0, x0) in ((0, 0), (h - 1, w - 1)):
            for a, b in (((y0, x0), (y0, x0 + 1)), ((y0 + 1, x0), (y0 + 1, x0 + 1)), ((y0, x0), (y0 + 1, x0)), ((y0, x0 + 1), (y0 + 1, x0 + 1))):
                two[eidx[frozenset((pid(a), pid(b)))]] = 1
        pats.append(tuple(two))
        with ctx.guard(300):
            frame_pointwise(ctx, "cycle", h, w, False, be, pats)
        ctx.count("cyc.big_frames")
    for t in range(2 if not thorough else 20):
        n = rng.randint(14, 26)
        order = list(range(n))
        rng.shuffle(order)
        edges = [(order[i], order[(i + 1) % n]) for i in range(n)]
        extra = [tuple(rng.sample(range(n), 2)) for _ in range(3)]
        e2 = D.scramble(rng, edges + extra)
        on = {frozenset(e) for e in edges}
        full = tuple(1 if frozenset(e) in on else 0 for e in e2)
        # the n-cycle itself; with one edge missing; with a chord added (if the chord is not parallel to a cycle edge)
        miss = list(full)
        miss[full.index(1)] = 0
        pats = [full, tuple(miss)]
        if 0 in full:
            ch = list(full)
            ch[full.index(0)] = 1
            pats.append(tuple(ch))
        with ctx.guard(300):
            graph_case(ctx, "cycle", n, e2, False, be, rng, patterns=pats)
        ctx.count("cyc.long_cycle_graphs")


def run(ctx):
    rng = ctx.rng
    msolve.install(ctx, owner="C01", brute_cap=256)
    mwire.install(ctx)
    be = standin.make("cspuz_core", standin.WireLog())
    thorough = ctx.tier == "thorough"
    work = []
    for n in (1, 2, 3, 4):
        for edges in G.graphs_up_to_iso(n, 2):
            if len(edges) <= 6:
                e = [tuple(x) for x in edges]
                work.append(("g", "cycle", n, e, False))
                work.append(("g", "cycle", n, e, True))
                work.append(("g", "path", n, e, True))
    for h, w in [(1, 1), (1, 2), (2, 1), (1, 3), (3, 1)]:
        work.append(("f", "cycle", h, w, False))
        work.append(("f", "cycle", h, w, True))
        work.append(("f", "path", h, w, True))
    for h, w in [(2, 2), (2, 3), (3, 2), (3, 3), (1, 5), (5, 1), (0, 2), (2, 0), (0, 0)] + ([(3, 4), (4, 3), (2, 6), (6, 2), (1, 9)] if thorough else []):
        work.append(("fa", h, w))
    # 2x2 frame: 4096 subsets, split into chunks
    pats22 = list(D.all_patterns(12))
    chunk = 256
    for i in range(0, 4096, chunk):
        work.append(("f22", i))
    ctx.exhaustive["cycle: multigraphs <=4 vertices (<=6 edges) and frames <= 2x2 x all subsets, both encodings"] = True
    for k, item in enumerate(work):
        if not ctx.mine(k):
            continue
        import time as _t
        _t0 = _t.time()
        with ctx.guard(1200 if not thorough else 3600):
            if item[0] == "g":
                _, fn, n, edges, prim = item
                e2 = [(v, u) if rng.random() < 0.5 else (u, v) for u, v in edges]
                rng.shuffle(e2)
                graph_case(ctx, fn, n, e2, prim, be, rng)
            elif item[0] == "f":
                _, fn, h, w, prim = item
                frame_pointwise(ctx, fn, h, w, prim, be)
            elif item[0] == "fa":
                frame_accepted(ctx, item[1], item[2])
            else:
                sub = pats22[item[1]:item[1] + chunk]
                frame_pointwise(ctx, "cycle", 2, 2, False, be, sub)
                if thorough or item[1] % 1024 == 0:
                    frame_pointwise(ctx, "cycle", 2, 2, True, be, sub[::4])
                    frame_pointwise(ctx, "path", 2, 2, True, be, sub[::4])
        ctx.count("time_ms." + str(item[0]) + ("." + str(item[1]) if item[0] in ("g", "f") else ""), int((_t.time() - _t0) * 1000))
    big_stage(ctx, rng, be, thorough)
    ctx.sample({"fn": "cycle", "frame": [1, 1], "pattern": [1, 1, 1, 1], "definition": True, "visited": [True] * 4})
    mwire.uninstall()
    msolve.uninstall()


def replay(w, ctx):
    msolve.install(ctx, owner="C01", brute_cap=256)
    mwire.install(ctx)
    be = standin.make("cspuz_core", standin.WireLog())
    d = w["desc"]
    if "frame" in d:
        frame_pointwise(ctx, d["fn"], d["frame"][0], d["frame"][1], d.get("primitive", False), be, [tuple(w["pattern"])] if w.get("pattern") else None)
    else:
        graph_case(ctx, d["fn"], d["n"], [tuple(e) for e in d["edges"]], d["primitive"], be, ctx.rng)
