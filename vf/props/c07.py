"""C07  Variable-group division (with / without borders) admits exactly valid partitions.

Deciding method: the real functions are executed; driver A fixes the same-block
relation of the returned group ids to every set partition, driver B fixes the
border pattern; Solver verdict (under M-SOLVE / M-WIRE) vs the definition
(blocks connected, specified sizes met, every border edge separates two blocks)."""
import itertools

import cspuz
from cspuz import graph
from cspuz.array import IntArray1D, IntArray2D, BoolArray1D
from cspuz.grid_frame import BoolInnerGridFrame

from ..monitors import msolve, mwire, standin
from ..refs import graphdefs as G
from ..workloads import graphdrv as D

RULE = ("driver A: all labelled graphs <= 4 vertices (quick) / 5 (thorough) and grids <= 2x3 x ALL set partitions x group_size in "
        "{absent, constant, shared variable, per-vertex list with None holes, IntArray of variables, nested lists (shape form)}; "
        "driver B: same graphs x all 2^m border patterns (m <= 10) x size specs, explicit graph and BoolInnerGridFrame forms, "
        "aux encoding via z3 and native graph-division via the stand-in; one evaluation = one solve vs the definition; "
        "distinct by (driver, graph, partition/border pattern, size spec, encoding)")
ASSUMPTIONS = ["z3 decides the posted program correctly (SAT re-validated by M-SOLVE)",
               "primitive route: stand-in semantics of graph-division = blocks of the border cut, no redundant border, sizes met"]
REQUIRED = ["vg.cases", "vg.want.valid", "vg.want.invalid", "vg.size.none", "vg.size.const", "vg.size.var", "vg.size.list", "vg.size.array",
            "vg.size.nested", "vgb.cases", "vgb.want.valid", "vgb.want.invalid", "vgb.primitive", "vgb.frame", "vg.grid", "mwire.exchanges", "vg.big_boards", "vg.big_boards_borders", "vg.big_block_ge12",
            "vg.line_graph_objects", "vgb.frame_arrays.horizontal", "vgb.frame_arrays.vertical", "vgb.frame_arrays.both"]


def plan(tier):
    return {"shards": 16}


def size_specs(rng, n, block_size_of):
    """Yield (kind, spec) where spec is JSON-able: None | int | ['var', lo, hi] | list of (None | int | ['var', lo, hi])."""
    yield "none", None
    sizes = sorted(set(block_size_of))
    yield "const", rng.choice(sizes + [rng.randint(1, n)])
    yield "var", ["var", 1, n] if rng.random() < 0.6 else ["var", rng.randint(1, n), n]
    lst = []
    for v in range(n):
        k = rng.random()
        if k < 0.4:
            lst.append(None)
        elif k < 0.75:
            lst.append(block_size_of[v] if rng.random() < 0.75 else rng.randint(1, n))
        else:
            lst.append(["var", 1, n] if rng.random() < 0.7 else ["var", rng.randint(1, n), n])
    yield "list", lst
    arr = []
    for v in range(n):
        k = rng.random()
        if k < 0.5:
            arr.append(["var", 1, n])
        elif k < 0.8:
            arr.append(["var", block_size_of[v], block_size_of[v]])
        else:
            s = rng.randint(1, n)  # a pinned size that may contradict the block (singleton-domain variable)
            arr.append(["var", s, s])
    yield "array", arr


def mk_size(s, spec):
    if spec is None or isinstance(spec, int):
        return spec
    if isinstance(spec, list) and spec and spec[0] == "var":
        return s.int_var(spec[1], spec[2])
    return [mk_size(s, x) for x in spec]


def sizes_feasible(spec, n, block_of):
    """Definition side: does an assignment to the size variables exist such that every specified size equals its block's size?
    A shared variable/constant must equal every block's size; per-vertex variables are independent (domain must contain the size)."""
    cnt = {}
    for v in range(n):
        cnt[block_of[v]] = cnt.get(block_of[v], 0) + 1
    bs = [cnt[block_of[v]] for v in range(n)]
    if spec is None:
        return True
    if isinstance(spec, int):
        return all(b == spec for b in bs)
    if spec and spec[0] == "var":
        return len(set(bs)) == 1 and spec[1] <= bs[0] <= spec[2]
    for v, x in enumerate(spec):
        if x is None:
            continue
        if isinstance(x, int):
            if x != bs[v]:
                return False
        elif not (x[1] <= bs[v] <= x[2]):
            return False
    return True


def driver_a(ctx, n, edges, part, kind, spec, grid, nested, gobj=None):
    block_of = [None] * n
    for b, vs in enumerate(part):
        for v in vs:
            block_of[v] = b
    s = cspuz.Solver()
    desc = {"driver": "A", "n": n, "edges": [list(e) for e in edges], "grid": grid, "partition": part, "size": spec, "size_kind": kind}
    ctx.current_case = {"tag": "vg", "desc": desc}
    if grid is None and gobj is None:
        edges = D.scramble(ctx.rng, edges)
        desc["edges"] = [list(e) for e in edges]
    try:
        gs = mk_size(s, spec)
        if grid is not None:
            h, w = grid
            if kind == "list":
                rows = [gs[y * w:(y + 1) * w] for y in range(h)]
                ids = graph.division_connected_variable_groups(s, shape=(h, w) if nested else None, group_size=rows)
                kind = "nested"
            elif kind == "array":
                ids = graph.division_connected_variable_groups(s, group_size=IntArray2D(gs, (h, w)))
            else:
                ids = graph.division_connected_variable_groups(s, shape=(h, w), group_size=gs)
            idl = [ids[y, x] for y in range(h) for x in range(w)]
        else:
            g = gobj if gobj is not None else D.mk_graph(n, edges)
            if kind == "array" and all(not (x is None or isinstance(x, int)) for x in gs):
                gs = IntArray1D(gs)
            ids = graph.division_connected_variable_groups(s, graph=g, group_size=gs)
            idl = list(ids)
    except Exception as e:
        ctx.violation(f"vg:post-raises:{type(e).__name__}:{kind}", f"division_connected_variable_groups raised {e!r}", ctx.current_case)
        return
    for u in range(n):
        for v in range(u + 1, n):
            s.ensure(idl[u] == idl[v] if block_of[u] == block_of[v] else idl[u] != idl[v])
    res = D.solve_sat(ctx, s)
    want = G.partition_ok(n, edges, block_of, [None] * n) and sizes_feasible(spec, n, block_of)
    ctx.count("vg.cases")
    ctx.count("vg.want." + ("valid" if want else "invalid"))
    ctx.count("vg.size." + kind)
    if grid is not None:
        ctx.count("vg.grid")
    ctx.case(["vgA", desc], nontrivial=True)
    if res is None:
        return
    if res != want:
        ctx.violation(f"vg:{'accepts-invalid' if res else 'rejects-valid'}:{kind}",
                      f"variable_groups (size {kind}): realisable={res}, definition={want}", ctx.current_case)


def driver_b(ctx, n, edges, border, kind, spec, prim, be, frame=None, gobj=None):
    s = cspuz.Solver()
    desc = {"driver": "B", "n": n, "edges": [list(e) for e in edges], "frame": frame, "border": list(map(int, border)), "size": spec,
            "size_kind": kind, "primitive": prim}
    ctx.current_case = {"tag": "vgb", "desc": desc}
    if frame is None and len(edges) > 1 and gobj is None:
        perm = list(range(len(edges)))
        ctx.rng.shuffle(perm)
        edges = [((edges[k][1], edges[k][0]) if ctx.rng.random() < 0.5 else tuple(edges[k])) for k in perm]
        border = [border[k] for k in perm]
        desc["edges"], desc["border"] = [list(e) for e in edges], list(map(int, border))
    try:
        if isinstance(spec, list) and spec and spec[0] == "var":
            sv = s.int_var(spec[1], spec[2])
            gs = [sv] * n  # the _with_borders signature has no scalar form: a shared variable is passed per vertex
        elif isinstance(spec, int):
            gs = [spec] * n
        else:
            gs = mk_size(s, spec)
        if frame is not None:
            h, w = frame
            # the frame's arrays may be the frame's own or the caller's (one of them, or both); the pattern is imposed on the arrays
            # the CALLER holds, which is all a caller who passed them can do
            how = ctx.rng.choice(["own", "own", "horizontal", "vertical", "both"])
            hor = s.bool_array((h - 1, w)) if how in ("horizontal", "both") and h > 1 else None
            ver = s.bool_array((h, w - 1)) if how in ("vertical", "both") and w > 1 else None
            kw = {}
            if hor is not None:
                kw["horizontal"] = hor
            if ver is not None:
                kw["vertical"] = ver
            fr = BoolInnerGridFrame(s, h, w, **kw)
            desc["frame_arrays"] = how
            ctx.count("vgb.frame_arrays." + how)
            # lattice: vertical border between (y,x),(y,x+1) = vertical[y, x]; horizontal between (y,x),(y+1,x) = horizontal[y, x]
            bv = []
            for (u, v) in edges:
                y, x = divmod(u, w)
                y2, x2 = divmod(v, w)
                if y2 == y:
                    bv.append((ver if ver is not None else fr.vertical)[y, x])
                else:
                    bv.append((hor if hor is not None else fr.horizontal)[y, x])
            if gs is None:
                gs = [s.int_var(1, n) for _ in range(n)]
            gsa = IntArray2D([x if not (x is None or isinstance(x, int)) else _const_var(s, x, n) for x in gs], (h, w))
            graph.division_connected_variable_groups_with_borders(s, group_size=gsa, is_border=fr, use_graph_primitive=prim)
        else:
            g = gobj if gobj is not None else D.mk_graph(n, edges)
            bv = [s.bool_var() for _ in edges]
            isb = BoolArray1D(bv) if sum(border) % 2 else bv
            graph.division_connected_variable_groups_with_borders(s, group_size=gs, is_border=isb, graph=g, use_graph_primitive=prim)
    except Exception as e:
        ctx.violation(f"vgb:post-raises:{type(e).__name__}:{kind}", f"..._with_borders raised {e!r}", ctx.current_case)
        return
    s.ensure([b if p else ~b for b, p in zip(bv, border)])
    res = D.solve_sat(ctx, s, be if prim else None)
    bl = G.blocks_of_cut(n, edges, border)
    want = all(not (border[k] and bl[u] == bl[v]) for k, (u, v) in enumerate(edges)) and G.partition_ok(n, edges, bl, [None] * n) \
        and sizes_feasible(spec, n, bl)
    ctx.count("vgb.cases")
    ctx.count("vgb.want." + ("valid" if want else "invalid"))
    ctx.count("vgb.size." + kind)
    if prim:
        ctx.count("vgb.primitive")
    if frame is not None:
        ctx.count("vgb.frame")
    ctx.case(["vgB", desc], nontrivial=True)
    if res is None:
        return
    if res != want:
        ctx.violation(f"vgb:{'accepts-invalid' if res else 'rejects-valid'}:{'prim' if prim else 'aux'}:{kind}",
                      f"..._with_borders ({'prim' if prim else 'aux'}, size {kind}): satisfiable={res}, definition={want}", ctx.current_case)


def _const_var(s, x, n):
    """IntArray2D needs expressions: a None hole becomes a free variable 1..n, a constant a singleton-domain variable."""
    if x is None:
        return s.int_var(1, n)
    return s.int_var(x, x)


def run(ctx):
    rng = ctx.rng
    msolve.install(ctx, owner="C01", brute_cap=256)
    mwire.install(ctx)
    be = standin.make("cspuz_core", standin.WireLog())
    thorough = ctx.tier == "thorough"
    nmax = 5 if thorough else 4
    work = []
    for n in range(1, nmax + 1):
        for edges in G.all_graphs(n):
            work.append((n, edges, None))
    for h, w in [(1, 1), (1, 2), (2, 1), (1, 3), (3, 1), (2, 2), (2, 3), (3, 2), (1, 4)]:
        work.append((h * w, G.grid_edges(h, w), (h, w)))
    ctx.exhaustive[f"driver A: all labelled graphs <= {nmax} vertices and grids <= 6 cells x all set partitions x size specs (sampled values)"] = True
    for k, (n, edges, grid) in enumerate(work):
        if not ctx.mine(k):
            continue
        with ctx.guard(1500 if not thorough else 3600):
            for part in G.set_partitions(list(range(n))):
                block_of = [None] * n
                for b, vs in enumerate(part):
                    for v in vs:
                        block_of[v] = b
                bsz = [len(part[block_of[v]]) for v in range(n)]
                for kind, spec in size_specs(rng, n, bsz):
                    driver_a(ctx, n, edges, part, kind, spec, grid, nested=(rng.random() < 0.5))
            m = len(edges)
            if m <= 10:
                pats = list(D.all_patterns(m))
                if len(pats) > (256 if thorough else 64):
                    pats = rng.sample(pats, 256 if thorough else 64)
                for border in pats:
                    bl = G.blocks_of_cut(n, edges, border)
                    cnt = {}
                    for v in range(n):
                        cnt[bl[v]] = cnt.get(bl[v], 0) + 1
                    bsz = [cnt[bl[v]] for v in range(n)]
                    specs = list(size_specs(rng, n, bsz))
                    for kind, spec in (specs if (thorough or m <= 3) else rng.sample(specs, 2)):
                        prim = rng.random() < 0.35
                        driver_b(ctx, n, edges, border, kind, spec, prim, be, frame=(grid if grid and rng.random() < 0.6 else None))
    # boards too large to enumerate: one long winding block (depth = length) plus the blocks it leaves; sizes up to the board size
    for t in range(2 if not thorough else 24):
        h, w = rng.choice([(4, 5), (5, 5), (4, 6), (5, 6), (6, 6), (3, 8)])
        n, edges = h * w, G.grid_edges(h, w)
        wm = D.worm(rng, h, w)
        rest = D.components_of(h, w, {(y, x) for y in range(h) for x in range(w)} - set(wm))
        part = [sorted(y * w + x for y, x in wm)] + [sorted(y * w + x for y, x in comp) for comp in rest]
        variants = [("valid", part)]
        if len(wm) >= 6:
            # not a partition into connected blocks: the worm's two ends in one block, its middle in another
            mid = len(wm) // 2
            ends = sorted(y * w + x for y, x in wm[:mid - 1] + wm[mid + 1:])
            middle = sorted(y * w + x for y, x in wm[mid - 1:mid + 1])
            variants.append(("split-worm", [ends, middle] + part[1:]))
        for what, pt in variants:
            block_of = [None] * n
            for b, vs in enumerate(pt):
                for v in vs:
                    block_of[v] = b
            bsz = [len(pt[block_of[v]]) for v in range(n)]
            specs = list(size_specs(rng, n, bsz))
            for kind, spec in [specs[0]] + rng.sample(specs[1:], 2):
                with ctx.guard(300):
                    driver_a(ctx, n, edges, pt, kind, spec, (h, w), nested=(rng.random() < 0.5))
                ctx.count("vg.big_boards")
        if max(len(b) for b in part) >= 12:
            ctx.count("vg.big_block_ge12")
        # driver B on the same board: the borders of the valid partition, and the same with one border segment opened
        block_of = [None] * n
        for b, vs in enumerate(part):
            for v in vs:
                block_of[v] = b
        border = [1 if block_of[u] != block_of[v] else 0 for u, v in edges]
        opened = list(border)
        if 1 in opened:
            opened[rng.choice([k for k, x in enumerate(opened) if x])] = 0
        for bd in (border, opened):
            bl = G.blocks_of_cut(n, edges, bd)
            cnt = {}
            for v in range(n):
                cnt[bl[v]] = cnt.get(bl[v], 0) + 1
            bsz = [cnt[bl[v]] for v in range(n)]
            specs = list(size_specs(rng, n, bsz))
            for kind, spec in [specs[0], rng.choice(specs[1:])]:
                with ctx.guard(300):
                    driver_b(ctx, n, edges, bd, kind, spec, False, be, frame=((h, w) if rng.random() < 0.5 else None))
                ctx.count("vg.big_boards_borders")
    # Graph objects produced by Graph.line_graph() (dividing the EDGES of a graph into connected groups): all set partitions / all
    # border patterns of small ones
    for t in range(3 if not thorough else 40):
        r = D.line_graph_object(rng, nmax=4)
        if r is None:
            ctx.count("vg.line_graph_object_disagrees")
            continue
        gobj, n, edges = r
        if n > 5 or len(edges) > 8:
            continue
        with ctx.guard(600):
            for part in G.set_partitions(list(range(n))):
                block_of = [None] * n
                for b, vs in enumerate(part):
                    for v in vs:
                        block_of[v] = b
                bsz = [len(part[block_of[v]]) for v in range(n)]
                specs = list(size_specs(rng, n, bsz))
                for kind, spec in [specs[0], rng.choice(specs[1:])]:
                    driver_a(ctx, n, edges, part, kind, spec, None, False, gobj=gobj)
            pats = list(D.all_patterns(len(edges)))
            for border in (pats if len(pats) <= 32 else rng.sample(pats, 32)):
                bl = G.blocks_of_cut(n, edges, border)
                cnt = {}
                for v in range(n):
                    cnt[bl[v]] = cnt.get(bl[v], 0) + 1
                specs = list(size_specs(rng, n, [cnt[bl[v]] for v in range(n)]))
                kind, spec = rng.choice(specs[:2])
                driver_b(ctx, n, edges, border, kind, spec, False, be, gobj=gobj)
        ctx.count("vg.line_graph_objects")
    ctx.sample({"driver": "A", "n": 3, "edges": [[0, 1], [1, 2]], "partition": [[0, 2], [1]], "definition": False})
    mwire.uninstall()
    msolve.uninstall()


def replay(w, ctx):
    msolve.install(ctx, owner="C01", brute_cap=256)
    mwire.install(ctx)
    be = standin.make("cspuz_core", standin.WireLog())
    d = w["desc"]
    edges = [tuple(e) for e in d["edges"]]
    if d["driver"] == "A":
        driver_a(ctx, d["n"], edges, d["partition"], d["size_kind"], d["size"], tuple(d["grid"]) if d.get("grid") else None, False)
    else:
        driver_b(ctx, d["n"], edges, d["border"], d["size_kind"], d["size"], d["primitive"], be, tuple(d["frame"]) if d.get("frame") else None)
