"""C04  active_vertices_connected <=> connected (or tree) active set.

Deciding method: the real constraint function is executed for every pattern of
small graphs / grids and the Solver's verdict (observed under M-SOLVE) is
compared with the graph-theoretic definition; aux-variable encoding through z3,
native-primitive encoding through the protocol stand-in (M-WIRE on)."""
import itertools

from cspuz import graph
from cspuz.array import BoolArray1D, BoolArray2D

from ..monitors import msolve, mwire, standin
from ..refs import graphdefs as G
from ..workloads import graphdrv as D

RULE = ("all labelled graphs on <= 4 (quick) / <= 5 (thorough) vertices x all activity patterns x acyclic on/off x encoding "
        "(aux via z3, primitive via stand-in) x operand form (variables, negated variables, compound expressions, Python constants); "
        "all grid shapes with h*w <= 9 (quick) / <= 12 pointwise and <= 16 by accepted-set enumeration (thorough); random graphs n <= 8/12 "
        "with parallel edges; one evaluation = one solve compared with the definition; distinct by (graph, pattern, flags, form); "
        "every case is non-trivial (each graph sweep sees accepted and rejected patterns, counted in monitor_counters)")
ASSUMPTIONS = ["z3 decides the posted aux-variable program correctly (SAT answers are re-validated by M-SOLVE, UNSAT answers are trusted)",
               "primitive route: stand-in semantics of graph-active-vertices-connected = induced-subgraph connectivity"]
REQUIRED = ["avc.pointwise", "avc.oracle.valid", "avc.oracle.invalid", "avc.acyclic", "avc.primitive", "avc.grid", "avc.form.neg",
            "avc.form.expr", "avc.form.const", "avc.accepted_set_solves", "msolve.model_checked", "mwire.exchanges", "avc.random_graphs", "avc.graph_reused_after_add_edge", "avc.graphs_with_self_loops", "avc.line_graph_objects",
            "avc.one_vertex", "avc.disconnected_graph", "avc.winding_grids", "avc.long_paths"]


def plan(tier):
    return {"shards": 16}


def oracle(n, edges, acyclic):
    if acyclic:
        return lambda p: G.induced_tree_or_empty(n, edges, p)
    return lambda p: G.induced_connected(n, edges, p)


def graph_case(ctx, n, edges, acyclic, prim, forms, be, as_array=False):
    edges = D.scramble(ctx.rng, edges)  # edge order and orientation as a caller might add them
    g = D.mk_graph(n, edges)
    desc = {"n": n, "edges": [list(e) for e in edges], "acyclic": acyclic, "primitive": prim, "array1d": as_array}

    def post(s, act):
        a = BoolArray1D(act) if as_array else act
        graph.active_vertices_connected(s, a, g, acyclic=acyclic, use_graph_primitive=prim)

    D.pointwise(ctx, "avc", n, post, oracle(n, edges, acyclic), D.all_patterns(n), backend=(be if (prim and not acyclic) else None),
                forms=forms, desc=desc, rng=ctx.rng)
    if acyclic:
        ctx.count("avc.acyclic")
    if prim:
        ctx.count("avc.primitive")
    if n == 1:
        ctx.count("avc.one_vertex")
    if not G.induced_connected(n, edges, [1] * n):
        ctx.count("avc.disconnected_graph")


def grid_case(ctx, h, w, acyclic, prim, be, mode):
    edges = G.grid_edges(h, w)
    n = h * w
    desc = {"grid": [h, w], "acyclic": acyclic, "primitive": prim}

    def post(s, act):
        graph.active_vertices_connected(s, BoolArray2D(act, (h, w)), acyclic=acyclic, use_graph_primitive=prim)

    ora = oracle(n, edges, acyclic)
    if mode == "pointwise":
        D.pointwise(ctx, "avc", n, post, ora, D.all_patterns(n), backend=(be if (prim and not acyclic) else None),
                    forms=("var",) if n > 6 else ("var", "neg", "expr"), desc=desc, rng=ctx.rng)
    else:
        oset = {p for p in D.all_patterns(n) if ora(p)}
        D.accepted_set(ctx, "avc", n, post, oset, backend=(be if (prim and not acyclic) else None), desc=desc, cap=6000)
    ctx.count("avc.grid")


def random_graph(rng, nmax):
    n = rng.randint(5, nmax)
    edges = []
    for u in range(n):
        for v in range(u + 1, n):
            if rng.random() < 2.2 / n:
                edges.append((u, v) if rng.random() < 0.5 else (v, u))
                if rng.random() < 0.1:
                    edges.append((u, v))
    rng.shuffle(edges)
    return n, edges


def run(ctx):
    rng = ctx.rng
    msolve.install(ctx, owner="C01", brute_cap=256)
    mwire.install(ctx)
    log = standin.WireLog()
    be = standin.make("cspuz_core", log)
    thorough = ctx.tier == "thorough"
    work = []
    nmax = 5 if thorough else 4
    for n in range(1, nmax + 1):
        for edges in G.all_graphs(n):
            for acyclic in (False, True):
                work.append(("graph", n, edges, acyclic))
    cells = 12 if thorough else 9
    for h, w in D.grid_shapes(cells):
        for acyclic in (False, True):
            work.append(("grid", h, w, acyclic))
    ctx.exhaustive[f"all labelled graphs <= {nmax} vertices x all patterns x acyclic x (aux, primitive)"] = True
    ctx.exhaustive[f"all grids h*w <= {cells} x all patterns x acyclic (aux)"] = True
    for k, item in enumerate(work):
        if not ctx.mine(k):
            continue
        with ctx.guard(600 if not thorough else 2400):
            if item[0] == "graph":
                _, n, edges, acyclic = item
                forms = ("var", "mixed") if n >= 4 else ("var", "neg", "expr", "const", "mixed")
                graph_case(ctx, n, edges, acyclic, False, forms, be, as_array=(k % 3 == 0))
                graph_case(ctx, n, edges, acyclic, True, ("var",) if n >= 4 else ("var", "neg", "const"), be)
            else:
                _, h, w, acyclic = item
                grid_case(ctx, h, w, acyclic, False, be, "pointwise")
                if h * w <= 6:
                    grid_case(ctx, h, w, acyclic, True, be, "pointwise")
                if k % 2 == 0 or thorough:
                    grid_case(ctx, h, w, acyclic, False, be, "accepted")
    if thorough:
        # accepted-set enumeration costs ~K^2/2 clause conversions for K accepted patterns: only shapes with K <= ~2000
        big = [((2, 7), False), ((2, 7), True), ((7, 2), False), ((7, 2), True), ((1, 14), False), ((14, 1), True),
               ((3, 5), True), ((5, 3), True), ((2, 8), True), ((8, 2), True)]
        for k, ((h, w), acyclic) in enumerate(big):
            if ctx.mine(k):
                with ctx.guard(3000):
                    grid_case(ctx, h, w, acyclic, False, be, "accepted")
    # larger grids, sampled patterns (BFS-grown connected sets, their one-cell perturbations, random)
    bigger = [(2, 5), (5, 2), (3, 4), (4, 3), (2, 6), (6, 2), (3, 5), (5, 3), (4, 4), (5, 5), (2, 7), (7, 2), (1, 12), (12, 1), (6, 3)]
    for k, (h, w) in enumerate(bigger):
        if not ctx.mine(k):
            continue
        n = h * w
        edges = G.grid_edges(h, w)
        adj = G.adjacency(n, edges)
        for acyclic in (False, True):
            pats = []
            for _ in range(10 if not thorough else 60):
                cur = {rng.randrange(n)}
                for _ in range(rng.randint(0, n)):
                    nb = [x for u in cur for x in adj[u] if x not in cur]
                    if not nb:
                        break
                    cur.add(rng.choice(nb))
                p = [1 if v in cur else 0 for v in range(n)]
                pats.append(tuple(p))
                q = list(p)
                q[rng.randrange(n)] ^= 1
                pats.append(tuple(q))
                pats.append(tuple(rng.randint(0, 1) for _ in range(n)))

            def post(s, act, h=h, w=w, acyclic=acyclic):
                graph.active_vertices_connected(s, BoolArray2D(act, (h, w)), acyclic=acyclic)

            with ctx.guard(600):
                D.pointwise(ctx, "avc", n, post, oracle(n, edges, acyclic), pats, forms=("var",),
                            desc={"grid": [h, w], "acyclic": acyclic, "primitive": False}, rng=rng)
            ctx.count("avc.big_grid_samples", len(pats))
    # winding regions on larger boards: the induced radius of a snake / spiral far exceeds the board's diameter
    def snake(h, w, gap_rows=True):
        act = [[0] * w for _ in range(h)]
        for y in range(0, h, 2):
            for x in range(w):
                act[y][x] = 1
        for k, y in enumerate(range(1, h - (0 if h % 2 == 0 else 1), 2)):
            if y + 1 < h:
                act[y][w - 1 if k % 2 == 0 else 0] = 1
        return tuple(v for row in act for v in row)

    def spiral(h, w):
        act = [[0] * w for _ in range(h)]
        y, x, dy, dx = 0, 0, 0, 1
        act[0][0] = 1
        for _ in range(h * w):
            ny, nx = y + dy, x + dx
            ahead2 = (ny + dy, nx + dx)
            ok = 0 <= ny < h and 0 <= nx < w and not act[ny][nx]
            if ok:
                # keep a one-cell gap to the previous coil
                for ay, ax in ((ny + dy, nx + dx), (ny - dx, nx + dy) if False else (ny + dx, nx - dy)):
                    pass
                if 0 <= ahead2[0] < h and 0 <= ahead2[1] < w and act[ahead2[0]][ahead2[1]]:
                    ok = False
            if not ok:
                dy, dx = dx, -dy
                ny, nx = y + dy, x + dx
                a2 = (ny + dy, nx + dx)
                if not (0 <= ny < h and 0 <= nx < w) or act[ny][nx] or (0 <= a2[0] < h and 0 <= a2[1] < w and act[a2[0]][a2[1]]):
                    break
            act[ny][nx] = 1
            y, x = ny, nx
        return tuple(v for row in act for v in row)

    winding = [(5, 6), (6, 5), (6, 6), (7, 7), (4, 9), (9, 4), (5, 8), (3, 9)]
    for k, (h, w) in enumerate(winding):
        if not ctx.mine(k + 3):
            continue
        n = h * w
        edges = G.grid_edges(h, w)
        base = [snake(h, w), spiral(h, w), tuple(snake(w, h)[x * h + y] for y in range(h) for x in range(w))]
        pats = []
        for b in base:
            pats.append(b)
            q = list(b)
            ones = [i for i, v in enumerate(q) if v]
            q[rng.choice(ones)] = 0  # cut the snake somewhere: usually disconnects it
            pats.append(tuple(q))
            q = list(b)
            zeros = [i for i, v in enumerate(q) if not v]
            if zeros:
                q[rng.choice(zeros)] = 1  # add a cell: may close a cycle
                pats.append(tuple(q))
        for acyclic in (False, True):
            def post(s, act, h=h, w=w, acyclic=acyclic):
                graph.active_vertices_connected(s, BoolArray2D(act, (h, w)), acyclic=acyclic)

            with ctx.guard(900):
                D.pointwise(ctx, "avc", n, post, oracle(n, edges, acyclic), pats, forms=("var",),
                            desc={"grid": [h, w], "acyclic": acyclic, "primitive": False, "winding": True}, rng=rng)
        ctx.count("avc.winding_grids")
    # long paths and cycles as explicit graphs (rank range must reach n - 1)
    for k, n in enumerate([6, 7, 9, 12, 15]):
        if not ctx.mine(k + 7):
            continue
        for cyc in (False, True):
            edges = [(i, i + 1) for i in range(n - 1)] + ([(n - 1, 0)] if cyc else [])
            pats = [tuple([1] * n), tuple([1] * (n - 1) + [0]), tuple([0] + [1] * (n - 1)), tuple(1 if i != n // 2 else 0 for i in range(n)),
                    tuple(rng.randint(0, 1) for _ in range(n))]
            for acyclic in (False, True):
                e2 = D.scramble(rng, edges)
                g = D.mk_graph(n, e2)
                with ctx.guard(300):
                    D.pointwise(ctx, "avc", n, lambda s, act, g=g, acyclic=acyclic: graph.active_vertices_connected(s, act, g, acyclic=acyclic),
                                oracle(n, e2, acyclic), pats, forms=("var",), desc={"n": n, "edges": [list(e) for e in e2], "acyclic": acyclic,
                                                                                 "primitive": False}, rng=rng)
        ctx.count("avc.long_paths")
    # random larger graphs with parallel edges, random patterns (valid patterns forced in: BFS-grown sets)
    for k in range(12 if not thorough else 200):
        n, edges = random_graph(rng, 12 if thorough else 8)
        g = D.mk_graph(n, edges)
        acyclic = rng.random() < 0.5
        pats = []
        adj = G.adjacency(n, edges)
        for _ in range(6):
            cur = {rng.randrange(n)}
            for _ in range(rng.randint(0, n)):
                nb = [w for u in cur for w in adj[u] if w not in cur]
                if not nb:
                    break
                cur.add(rng.choice(nb))
            pats.append(tuple(1 if v in cur else 0 for v in range(n)))
            pats.append(tuple(rng.randint(0, 1) for _ in range(n)))
        prim = rng.random() < 0.3 and n <= 8

        def post(s, act, g=g, acyclic=acyclic, prim=prim):
            graph.active_vertices_connected(s, act, g, acyclic=acyclic, use_graph_primitive=prim)

        with ctx.guard(300):
            D.pointwise(ctx, "avc", n, post, oracle(n, edges, acyclic), pats, backend=(be if (prim and not acyclic) else None), forms=("var",),
                        desc={"n": n, "edges": [list(e) for e in edges], "acyclic": acyclic, "primitive": prim}, rng=rng)
        ctx.count("avc.random_graphs")
        if k == 0:
            ctx.sample({"n": n, "edges": edges, "acyclic": acyclic, "patterns": pats[:3]})
    # graphs with self-loops (connectivity ignores them; acyclic=True is not judged: 'tree' with a loop is not defined by the statement)
    # and Graph objects that come out of Graph.line_graph() instead of add_edge
    for k in range(6 if not thorough else 80):
        n, edges = random_graph(rng, 6)
        e2 = D.with_loops(rng, n, edges)
        g = D.mk_graph(n, e2)
        prim = rng.random() < 0.3

        def post(s, act, g=g, prim=prim):
            graph.active_vertices_connected(s, act, g, use_graph_primitive=prim)

        with ctx.guard(300):
            D.pointwise(ctx, "avc", n, post, oracle(n, edges, False), D.patterns_around(rng, n, edges, None, 6) + [tuple([1] * n)],
                        backend=(be if prim else None), forms=("var",),
                        desc={"n": n, "edges": [list(e) for e in e2], "acyclic": False, "primitive": prim, "self_loops": True}, rng=rng)
        ctx.count("avc.graphs_with_self_loops")
    for k in range(6 if not thorough else 80):
        r = D.line_graph_object(rng)
        if r is None:
            ctx.count("avc.line_graph_object_disagrees")
            continue
        g, n, edges = r
        acyclic = rng.random() < 0.5

        def post(s, act, g=g, acyclic=acyclic):
            graph.active_vertices_connected(s, act, g, acyclic=acyclic)

        with ctx.guard(300):
            D.pointwise(ctx, "avc", n, post, oracle(n, edges, acyclic), D.patterns_around(rng, n, edges, None, 6) + [tuple([1] * n)], forms=("var",),
                        desc={"n": n, "edges": [list(e) for e in edges], "acyclic": acyclic, "primitive": False, "from_line_graph": True}, rng=rng)
        ctx.count("avc.line_graph_objects")
    # histories: the same Graph object is used, extended by add_edge, and used again
    for g, n, edges, new in D.grown_graphs(rng, 3 if not thorough else 40):
        acyclic = rng.random() < 0.5
        prim = rng.random() < 0.3

        def post(s, act, g=g, acyclic=acyclic, prim=prim):
            graph.active_vertices_connected(s, act, g, acyclic=acyclic, use_graph_primitive=prim)

        with ctx.guard(300):
            D.pointwise(ctx, "avc", n, post, oracle(n, edges, acyclic), D.patterns_around(rng, n, edges, new, 6),
                        backend=(be if (prim and not acyclic) else None), forms=("var",),
                        desc={"n": n, "edges": [list(e) for e in edges], "acyclic": acyclic, "primitive": prim, "grown": True}, rng=rng)
        ctx.count("avc.graph_reused_after_add_edge")
    mwire.uninstall()
    msolve.uninstall()


def replay(w, ctx):
    msolve.install(ctx, owner="C01", brute_cap=256)
    mwire.install(ctx)
    be = standin.make("cspuz_core", standin.WireLog())
    d = w["desc"]
    pat = w.get("pattern")
    pats = [tuple(pat)] if pat else None
    if "grid" in d:
        h, wd = d["grid"]
        edges, n = G.grid_edges(h, wd), h * wd

        def post(s, act):
            graph.active_vertices_connected(s, BoolArray2D(act, (h, wd)), acyclic=d["acyclic"], use_graph_primitive=d["primitive"])
    else:
        n, edges = d["n"], [tuple(e) for e in d["edges"]]
        g = D.mk_graph(n, edges)

        def post(s, act):
            graph.active_vertices_connected(s, act, g, acyclic=d["acyclic"], use_graph_primitive=d["primitive"])
    D.pointwise(ctx, "avc", n, post, oracle(n, edges, d["acyclic"]), pats or D.all_patterns(n),
                backend=(be if (d["primitive"] and not d["acyclic"]) else None), forms=(w.get("form", "var"),), desc=d, rng=ctx.rng)
