"""C02  solve() reports exactly the facts common to all solutions.

Deciding method: M-SOLVE postcondition on the real Solver.solve (exact table
from ALL models by ref_brute), on three routes for the same program:
 (i)   z3 (refinement loop driven by z3's own model choice)
 (ii)  SugarBackend + protocol stand-in with adversarial model choosers
       (refinement loop under hostile 'schedules': stubborn / scatter / ...)
 (iii) native deduction replies (sugar_extended / csugar / enigma_csp / cspuz_core
       classes + stand-in in deduction mode)
and the three reported tables must be identical."""
import contextlib
import json
import random

import cspuz

from ..monitors import msolve, standin
from ..refs import ref_sugar
from ..workloads import progs

RULE = ("random typed programs (C01 generator) x answer-key subset (none/some/all, bool and int keys) x route "
        "(z3 loop, adversarial stand-in loop with 5 model choosers, native deduction through 4 backend classes); "
        "one evaluation = one monitored Solver.solve call; distinct by (program, key set, route, chooser); "
        "non-trivial when the program is satisfiable, has >= 1 answer key and the table was computed from all models")
ASSUMPTIONS = [
    "ref_brute enumerates all models of the posted program (domain product <= 8192)",
    "the stand-in's reply formats are those of sugar_extension/CspuzSugarInterface.java",
    "real Sugar/csugar/cspuz_core are absent offline; routes (ii)/(iii) exercise cspuz' side of the protocol only",
]
REQUIRED = ["c02.big_programs", "msolve.probe_keys", "msolve.probe_decided_confirmed", "msolve.probe_undecided_confirmed", "c02.planted_latin", "c02.planted_latin_judged_by_smt", "msolve.solve_judged", "msolve.key_decided", "msolve.key_undecided", "c02.route.z3", "c02.route.adv",
            "c02.route.native", "c02.tables_compared", "c02.unsat_programs", "c02.iter.ge3",
            "c02.keys.none", "c02.keys.all", "c02.keys.some", "c02.chooser.stubborn", "c02.chooser.scatter", "c02.followup_solves", "c02.ast_facts_checked"]
CHOOSERS = ["first", "last", "random", "stubborn", "scatter"]
NATIVE = ["sugar_extended", "csugar", "enigma_csp", "cspuz_core"]


def plan(tier):
    return {"shards": 16}


def gen_case(rng, wide=False):
    if wide:
        p = progs.gen_program(rng, max_vars=3, cap=1 << 62, wide=True, depth=rng.choice([1, 2]))
    else:
        p = progs.gen_program(rng, max_vars=rng.choice([3, 5, 7]), cap=2048, depth=rng.choice([1, 2, 2, 3]))
    n = len(p["decls"])
    k = rng.random()
    if k < 0.1:
        keys = []
    elif k < 0.4:
        keys = list(range(n))
    else:
        keys = [i for i in range(n) if rng.random() < 0.6]
    # loosen: mostly-satisfiable programs are the interesting ones for deduction
    if rng.random() < 0.5 and len(p["constraints"]) > 1:
        p["constraints"] = p["constraints"][:1]
    case = {"prog": p, "keys": keys}
    if rng.random() < 0.3:
        g = progs.Gen(rng, p["decls"], depth=2)
        case["followup"] = g.bool_(2)
    return case


def run_route(ctx, st, case, route, backend):
    p = case["prog"]
    s = cspuz.Solver()
    vars_ = progs.declare(s, p["decls"])
    with (progs.shared() if len(repr(p)) % 2 else contextlib.nullcontext()):
        for c in p["constraints"]:
            s.ensure(progs.build(c, vars_))
    if case["keys"]:
        ctx.count("c02.key_form.%d" % progs.register_keys(s, [vars_[i] for i in case["keys"]], len(repr(case)) + len(route)))
    ctx.current_case = {"case": case, "route": route}
    fired0 = st.fired
    try:
        res = s.solve(backend=backend)
    except Exception as e:
        ctx.count("c02.raised")
        if route == "z3" or not isinstance(e, (OverflowError,)):
            ctx.violation(f"solve-raises:{route.split(':')[0]}:{type(e).__name__}", f"solve via {route} raised {e!r}", ctx.current_case)
        else:
            ctx.inconc("stand-in overflow", ctx.current_case)
        return None
    judged = st.last.get("judged")
    table = [vars_[i].sol for i in case["keys"]] if res else None
    if st.fired == fired0:
        # independent of Solver's own bookkeeping (is_answer_key, stored bounds): the program and the key set as WRITTEN
        models = progs.ast_models(p["decls"], p["constraints"], cap=1 << 13)
        if models is not None:
            ctx.count("c02.ast_facts_checked")
            if bool(models) != bool(res):
                ctx.violation("ast-facts:wrong-sat", f"solve via {route} returned {res}, the program as written has {len(models)} models", ctx.current_case)
                return None
            if res:
                for i in case["keys"]:
                    vs_ = {m[i] for m in models}
                    want = next(iter(vs_)) if len(vs_) == 1 else None
                    got = vars_[i].sol
                    if got != want or type(got) is not type(want):
                        ctx.violation("ast-facts:key-" + ("overclaimed" if want is None else "underclaimed" if got is None else "wrong-value"),
                                      f"solve via {route}: registered key #{i} reported {got!r}, the program as written gives {want!r}", ctx.current_case)
                        return None
    if case.get("followup") is not None and st.fired == fired0:
        # history: same Solver object, one more constraint, solve again (and find_answer in between half of the time)
        try:
            if len(case["followup"]) % 2:
                s.find_answer(backend=backend)
            s.ensure(progs.build(case["followup"], vars_))
            s.solve(backend=backend)
            ctx.count("c02.followup_solves")
        except OverflowError:
            pass
        except Exception as e:
            ctx.violation(f"solve-raises:{route.split(':')[0]}:{type(e).__name__}", f"second solve via {route} raised {e!r}", ctx.current_case)
    ctx.case([p, case["keys"], route], nontrivial=bool(judged and res and case["keys"]))
    if st.fired != fired0:
        return None
    return (res, table)


def run_case(ctx, st, log, case, choosers):
    rng = ctx.rng
    nk, nv = len(case["keys"]), len(case["prog"]["decls"])
    ctx.count("c02.keys." + ("none" if nk == 0 else "all" if nk == nv else "some"))
    results = {}
    results["z3"] = run_route(ctx, st, case, "z3", None)
    ctx.count("c02.route.z3")
    for ch in choosers:
        log.clear()
        seed = rng.getrandbits(32)
        be = standin.make("sugar", log, chooser_factory=lambda: ref_sugar.Chooser(ch, random.Random(seed)))
        results["adv:" + ch] = run_route(ctx, st, case, "adv:" + ch, be)
        ctx.count("c02.route.adv")
        ctx.count("c02.chooser." + ch)
        iters = len(log.events)
        ctx.count("c02.iter." + ("1" if iters <= 1 else "2" if iters == 2 else "ge3"))
        ctx.count("c02.iter_total", iters)
    nat = rng.choice(NATIVE)
    log.clear()
    results["native:" + nat] = run_route(ctx, st, case, "native:" + nat, standin.make(nat, log))
    ctx.count("c02.route.native")
    ctx.count("c02.native." + nat)
    vals = {k: v for k, v in results.items() if v is not None}
    if len(vals) >= 2:
        ctx.count("c02.tables_compared")
        ref = next(iter(vals.values()))
        if any(v != ref for v in vals.values()):
            # every route passed its own postcondition, so this cannot happen unless the monitor is blind
            ctx.violation("routes-disagree", "the key tables of the routes differ although each passed M-SOLVE",
                          {"case": case, "results": {k: repr(v) for k, v in vals.items()}})
    if results["z3"] is not None and results["z3"][0] is False:
        ctx.count("c02.unsat_programs")


def run(ctx):
    st = msolve.install(ctx, owner="C02", brute_cap=1 << 13, smt=(ctx.tier == "thorough"), judge_exc=False)
    log = standin.WireLog()
    n = 500 if ctx.tier == "quick" else 9000
    rng = ctx.rng
    fixed = fixed_cases()
    for k, case in enumerate(fixed):
        if ctx.mine(k):
            with ctx.guard(120):
                run_case(ctx, st, log, case, CHOOSERS)
    if ctx.tier == "thorough":
        # wide domains (decided through cvc5: two queries per key), z3 route only (the stand-in enumerates domains)
        for k in range(40):
            case = gen_case(rng, wide=True)
            with ctx.guard(300):
                run_route(ctx, st, case, "z3", None)
            ctx.count("c02.wide_cases")
    # larger programs with a planted solution (latin squares with givens), with config.solver_timeout set to small values: the knob
    # bounds subprocess back ends; whatever a back end does with it, solve() may not report anything but the exact facts
    for k in range(2 if ctx.tier == "quick" else 12):
        with ctx.guard(300):
            planted_latin(ctx, st, rng)
    # programs far beyond the exact oracles (81-200 keys): exactness is probed key by key through the back end's own yes/no answers
    st.probe, st.probe_owner = 10, "C02"
    for k in range(3 if ctx.tier == "quick" else 12):
        with ctx.guard(300):
            big_program(ctx, rng)
    st.probe = 0
    for k in range(n):
        case = gen_case(rng)
        choosers = CHOOSERS if ctx.tier == "thorough" else rng.sample(CHOOSERS, 2) + ["stubborn"]
        with ctx.guard(120):
            run_case(ctx, st, log, case, list(dict.fromkeys(choosers)))
        if k < 2:
            ctx.sample(case)
    msolve.uninstall()


def planted_latin(ctx, st, rng):
    import cspuz
    from cspuz import alldifferent

    n = rng.choice([4, 5, 5, 6])
    base = list(range(n))
    rng.shuffle(base)
    rows = list(range(n))
    rng.shuffle(rows)
    sym = list(range(1, n + 1))
    rng.shuffle(sym)
    sol = [[sym[(base[x] + rows[y]) % n] for x in range(n)] for y in range(n)]
    dens = rng.choice([0.0, 0.2, 0.4, 0.6])
    given = {(y, x) for y in range(n) for x in range(n) if rng.random() < dens}
    s = cspuz.Solver()
    a = s.int_array((n, n), 1, n)
    s.add_answer_key(a)
    for i in range(n):
        s.ensure(alldifferent(a[i, :]))
        s.ensure(alldifferent(a[:, i]))
    for y, x in given:
        s.ensure(a[y, x] == sol[y][x])
    ctx.current_case = {"kind": "planted-latin", "n": n, "solution": sol, "given": sorted(map(list, given))}
    old_to, old_smt = cspuz.config.solver_timeout, st.smt
    cspuz.config.solver_timeout = rng.choice([0.001, 0.001, 0.01, 5.0])
    st.smt = 1  # every key decided by two cvc5 queries
    try:
        res = s.solve()
    finally:
        cspuz.config.solver_timeout, st.smt = old_to, old_smt
    ctx.case(["planted-latin", n, sol, sorted(given)], nontrivial=True)
    ctx.count("c02.planted_latin")
    if (st.last or {}).get("judged"):
        ctx.count("c02.planted_latin_judged_by_smt")
    # independent of the SMT oracle: the planted grid IS a solution, so solve() must say True and may decide no cell differently
    if res is not True:
        ctx.violation("planted:solve-says-unsat", f"solve() returned {res!r} for a latin square with a planted solution "
                      f"(config.solver_timeout={cspuz.config.solver_timeout})", ctx.current_case)
        return
    for y in range(n):
        for x in range(n):
            got = a[y, x].sol
            if got is not None and got != sol[y][x]:
                ctx.violation("planted:key-contradicts-solution", f"cell {(y, x)} reported {got}, the planted solution has {sol[y][x]}", ctx.current_case)
                return
            if (y, x) in given and got is None:
                ctx.violation("planted:given-undecided", f"given cell {(y, x)} reported None", ctx.current_case)
                return


def big_program(ctx, rng):
    import cspuz

    kind = rng.choice(["sudoku", "latin", "colouring", "one-hot"])
    s = cspuz.Solver()
    if kind == "one-hot":
        # at most one of many keys is true: every model differs from the first in a single key, so the refinement loop needs about as
        # many rounds as there are keys (nothing is determined in the end)
        nv = rng.randint(45, 130)
        vs = [s.bool_var() for _ in range(nv)]
        s.add_answer_key(vs)
        s.ensure(cspuz.count_true(vs) <= 1)
        ctx.current_case = {"kind": "big", "program": f"at most one of {nv} keys"}
        s.solve()
        ctx.case(["big", kind, nv, rng.random()], nontrivial=True)
        ctx.count("c02.big_programs")
        ctx.count("c02.big_programs." + kind)
        return
    if kind == "sudoku":
        from cspuz.puzzle import sudoku as SU

        n = 3
        size = 9
        canon = [[(n * (y % n) + y // n + x) % size + 1 for x in range(size)] for y in range(size)]
        perm = rng.sample(range(1, 10), 9)
        full = [[perm[v - 1] for v in row] for row in canon]
        dens = rng.choice([0.25, 0.4, 0.55])
        p = [[full[y][x] if rng.random() < dens else 0 for x in range(size)] for y in range(size)]
        ctx.current_case = {"kind": "big", "program": "sudoku 9x9", "givens": p}
        SU.solve_sudoku(p, n=3)  # builds its own Solver and calls solve(): 81 keys
        nk = 81
    elif kind == "latin":
        m = rng.choice([6, 7, 8])
        a = s.int_array((m, m), 1, m)
        s.add_answer_key(a)
        for i in range(m):
            s.ensure(cspuz.alldifferent(a[i, :]))
            s.ensure(cspuz.alldifferent(a[:, i]))
        sh = rng.sample(range(m), m)
        for y in range(m):
            for x in range(m):
                if rng.random() < 0.35:
                    s.ensure(a[y, x] == (sh[x] + y) % m + 1)
        ctx.current_case = {"kind": "big", "program": f"latin {m}x{m}"}
        s.solve()
        nk = m * m
    else:
        nv = rng.randint(60, 200)
        vs = [s.int_var(0, 2) for _ in range(nv)]
        s.add_answer_key(vs)
        for _ in range(int(nv * rng.choice([1.2, 1.8, 2.4]))):
            u, v = rng.sample(range(nv), 2)
            s.ensure(vs[u] != vs[v])
        for _ in range(nv // 6):
            s.ensure(vs[rng.randrange(nv)] == rng.randrange(3))
        ctx.current_case = {"kind": "big", "program": f"3-colouring of {nv} vertices"}
        s.solve()
        nk = nv
    ctx.case(["big", kind, nk, rng.random()], nontrivial=True)
    ctx.count("c02.big_programs")
    ctx.count("c02.big_programs." + kind)


def fixed_cases():
    b = ["b"]
    out = []
    # many keys, few constraints: long refinement runs for the stubborn chooser
    out.append({"prog": {"decls": [b] * 6, "constraints": [["or", ["bv", 0], ["bv", 1]]]}, "keys": list(range(6))})
    out.append({"prog": {"decls": [["i", 0, 4], ["i", 0, 4], b], "constraints": [["cmp", "lt", ["iv", 0], ["iv", 1]]]},
                "keys": [0, 1, 2]})
    out.append({"prog": {"decls": [["i", -2, 2], b], "constraints": [["cmp", "eq", ["iv", 0], ["il", -2]], ["bv", 1]]},
                "keys": [0, 1]})
    out.append({"prog": {"decls": [b, b], "constraints": [["and", ["bv", 0], ["not", ["bv", 0]]]]}, "keys": [0, 1]})
    out.append({"prog": {"decls": [b, b], "constraints": [["then", ["bv", 0], ["bv", 1]], ["then", ["not", ["bv", 0]], ["bv", 1]]]},
                "keys": [0, 1]})
    out.append({"prog": {"decls": [b, ["i", 1, 3]], "constraints": [["bl", True]]}, "keys": []})
    return out


def replay(w, ctx):
    st = msolve.install(ctx, owner="C02", brute_cap=1 << 13)
    log = standin.WireLog()
    c = w.get("case") or w
    case = c.get("case", c)
    run_case(ctx, st, log, case, CHOOSERS)
    print(json.dumps(st.last, default=repr))
