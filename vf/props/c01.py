"""C01  find_answer decides satisfiability and leaves a genuine model in .sol

Deciding method: M-SOLVE (runtime monitor on the real Solver.find_answer) with
ref_eval / ref_brute / cvc5 as oracle, over generated programs, incremental
sessions and realistic programs (graph encodings, puzzle solvers)."""
import json

import cspuz
from cspuz.expr import Op

from ..monitors import msolve
from ..workloads import progs

RULE = ("typed random constraint programs built through the public DSL (every operator and helper form, "
        "literals mixed in), single-shot and as incremental declare/ensure/find_answer sessions; every "
        "find_answer call is one evaluation judged by M-SOLVE; a case is distinct by its JSON AST (+ session "
        "prefix) and non-trivial when the oracle decided its satisfiability (brute force / cvc5) and the program "
        "has at least one variable in a constraint")
ASSUMPTIONS = [
    "ref_eval (80-line big-step semantics) is the meaning of the operators; cross-checked against the AST evaluator on every program",
    "cvc5 1.0 / system z3 4.8.12 binaries are correct on the wide-domain programs they decide",
    "default backend in this sandbox is z3 (no other backend importable)",
]
REQUIRED = ["msolve.find_answer", "msolve.model_checked", "c01.sessions", "c01.sessions_crossing_10", "c01.programs_with_shared_subterms", "c01.planted_with_timeout_knob", "c01.sessions_crossing_100", "c01.wide_programs",
            "c01.ast_crosscheck", "c01.fixed_programs", "c01.realistic_graph", "c01.boundary_programs"]

ALL_OPS = ["VAR", "BOOL_CONSTANT", "INT_CONSTANT", "NEG", "ADD/1", "ADD/2", "ADD/n", "SUB/2", "SUB/n", "EQ", "NE",
           "LE", "LT", "GE", "GT", "NOT", "AND/0", "AND/1", "AND/2", "AND/n", "OR/0", "OR/1", "OR/2", "OR/n",
           "IFF", "XOR", "IMP", "IF", "ALLDIFF/0", "ALLDIFF/1", "ALLDIFF/2", "ALLDIFF/n", "pybool", "pyint"]


def plan(tier):
    return {"shards": 16}


def sizes(tier):
    if tier == "quick":
        return dict(programs=1200, sessions=150, wide=30)
    return dict(programs=30000, sessions=4000, wide=700)


def run_program(ctx, st, prog, tag):
    """Build prog through the public API, find_answer under the monitor, plus AST cross-check."""
    ctx.current_case = {"kind": tag, "prog": prog}
    s = cspuz.Solver()
    vars_ = progs.declare(s, prog["decls"])
    try:
        if ctx.rng.random() < 0.7:
            with progs.shared():  # equal sub-terms are ONE object, as in `a = x & y; ensure(a | z, a.then(w))`
                built = [progs.build(c, vars_) for c in prog["constraints"]]
            ctx.count("c01.programs_with_shared_subterms")
        else:
            built = [progs.build(c, vars_) for c in prog["constraints"]]
        post_in_some_form(ctx, s, built)
    except Exception as e:
        ctx.violation(f"dsl-build-raises:{type(e).__name__}", f"building a well-typed program raised {e!r}", ctx.current_case)
        return
    judge(ctx, st, s, vars_, prog["decls"], prog["constraints"], tag)


def post_in_some_form(ctx, s, built):
    """Solver.ensure accepts any nesting of iterables: post the same constraints one by one, as several arguments, as nested
    lists / tuples, as a generator or as a BoolArray1D (order is preserved in all forms)."""
    from cspuz.array import BoolArray1D
    from cspuz.expr import BoolExpr

    form = ctx.rng.choice(["each", "each", "varargs", "list", "nested", "generator", "array"])
    if form == "array" and not all(isinstance(b, BoolExpr) for b in built):
        form = "nested"
    ctx.count("c01.ensure_form." + form)
    if form == "each":
        for b in built:
            s.ensure(b)
    elif form == "varargs":
        s.ensure(*built)
    elif form == "list":
        s.ensure(list(built))
    elif form == "nested":
        s.ensure([built[:1], (tuple(built[1:2]), [[b] for b in built[2:]])])
    elif form == "generator":
        s.ensure(b for b in built)
    else:
        s.ensure(BoolArray1D(built))


def judge(ctx, st, s, vars_, decls, constraints, tag):
    fired0 = st.fired
    try:
        res = s.find_answer()
    except Exception:
        ctx.case(["exc", tag, decls, constraints], nontrivial=False)
        return  # M-SOLVE has judged the exception
    info = st.last
    has_var = any(not progs.is_lit(c) for c in constraints)
    decided = info.get("oracle") is not None
    ctx.case([tag, decls, constraints], nontrivial=bool(decided and has_var))
    ctx.count("c01.result." + ("sat" if res else "unsat"))
    if st.fired != fired0:
        return
    # AST-level cross-check: the meaning the user wrote vs the tree the DSL built
    models = progs.ast_models(decls, constraints, cap=1 << 13)
    if models is not None:
        ctx.count("c01.ast_crosscheck")
        if bool(models) != res:
            ctx.violation("dsl-tree-meaning", f"find_answer={res} but the program as written has {len(models)} models "
                          "(the tree built by the DSL does not mean what the operators mean)", ctx.current_case)
            return
    if res:
        vals = [v.sol for v in vars_]
        for d, x in zip(decls, vals):
            if (d[0] == "b" and type(x) is not bool) or (d[0] == "i" and (type(x) is not int or not d[1] <= x <= d[2])):
                ctx.violation("sol-outside-declared-domain", f"sol {x!r} for a variable declared as {d}", ctx.current_case)
                return
        try:
            ok = all(progs.ev(c, vals) for c in constraints)
        except Exception:
            ok = False
        if not ok:
            ctx.violation("dsl-tree-meaning", "reported model violates the program as written", ctx.current_case)


def run_session(ctx, st, sess):
    """Incremental session: list of steps ['decl', d] | ['ensure', B] | ['solve']."""
    if ctx.rng.random() < 0.5 and not sess.get("_shared"):
        with progs.shared():
            return run_session(ctx, st, dict(sess, _shared=True))
    s = cspuz.Solver()
    vars_, decls, cons = [], [], []
    nsolve = 0
    for step in sess["steps"]:
        if step[0] == "decl":
            d = step[1]
            vars_.append(s.bool_var() if d[0] == "b" else s.int_var(d[1], d[2]))
            decls.append(d)
        elif step[0] == "ensure":
            s.ensure(progs.build(step[1], vars_))
            cons.append(step[1])
        else:
            nsolve += 1
            ctx.current_case = {"kind": "session", "steps": sess["steps"], "solve_no": nsolve}
            judge(ctx, st, s, vars_, list(decls), list(cons), "session")
            ctx.count("c01.session_solves")
    ctx.count("c01.sessions")


def gen_session(rng):
    decls = []
    steps = []
    prod = 1
    nsol = 0
    target = rng.randint(3, 8)
    while nsol < target:
        k = rng.random()
        if not decls or (k < 0.3 and len(decls) < 7):
            if rng.random() < 0.5:
                d = ["b"]
                size = 2
            else:
                size = rng.choice([1, 2, 3, 4])
                lo = rng.choice([0, 1, -2, 5])
                d = ["i", lo, lo + size - 1]
            if prod * size > 4096:
                continue
            prod *= size
            decls.append(d)
            steps.append(["decl", d])
        elif k < 0.7:
            g = progs.Gen(rng, decls, depth=rng.choice([1, 2, 3]))
            steps.append(["ensure", g.bool_(g.depth)])
        else:
            steps.append(["solve"])
            nsol += 1
    return {"steps": steps}


def gen_crossing_session(rng, boundary):
    """A session whose number of declared variables crosses `boundary` (10, 100) BETWEEN two find_answer calls, with compound
    constraints posted on both sides - anything the solver or backend keeps from the first call (names, translations, sizes) that
    depends on the variable count goes stale here."""
    decls, steps = [], []

    def declare(k):
        for _ in range(k):
            d = ["b"] if rng.random() < 0.6 else ["i", (lo := rng.choice([0, 1, -2])), lo + rng.choice([1, 2, 3])]
            decls.append(d)
            steps.append(["decl", d])

    def post(k):
        for _ in range(k):
            g = progs.Gen(rng, decls[-12:] if rng.random() < 0.5 else decls, depth=rng.choice([1, 2]))
            c = g.bool_(g.depth)
            off = len(decls) - 12 if len(g.decls) != len(decls) else 0
            steps.append(["ensure", _shift(c, max(off, 0))])

    declare(boundary - rng.randint(1, 4))
    post(rng.randint(3, 7))
    j = next((k for k, d in enumerate(decls) if d[0] == "b"), None)
    contradict = j is not None and rng.random() < 0.5
    if contradict:
        steps.append(["ensure", ["or", ["bv", j], ["bv", j]]])
    steps.append(["solve"])
    declare(rng.randint(1, 4) + rng.randint(0, 3))
    post(rng.randint(1, 3))
    steps.append(["solve"])
    if contradict:
        # contradicts something posted before the crossing: must be noticed afterwards
        steps.append(["ensure", ["not", ["and", ["bv", j], ["bv", j]]]])
        steps.append(["solve"])
    return {"steps": steps, "crossing": boundary}


def _shift(ast, off):
    """variable indices of an AST generated over a suffix of the declarations -> indices over all declarations"""
    if off == 0 or not isinstance(ast, list):
        return ast
    if ast and ast[0] in ("bv", "iv") and len(ast) == 2 and isinstance(ast[1], int):
        return [ast[0], ast[1] + off]
    return [_shift(a, off) for a in ast]


def fixed_programs():
    """Hand-listed corner forms that must be reached whatever the seed (empty / constant-only helpers)."""
    b, i = ["b"], ["i", 0, 2]
    P = []
    for c in (["cmp", "eq", ["count", ["L"]], ["il", 0]], ["fold_or", ["L"]], ["fold_and", ["L"]],
              ["not", ["fold_or", ["L"]]], ["alldiff", []], ["alldiff", [["il", 1], ["il", 2]]],
              ["alldiff", [["il", 1], ["il", 1]]], ["alldiff_arr", []], ["afold_or", []], ["afold_and", []],
              ["cmp", "eq", ["acount", []], ["il", 0]], ["cmp", "eq", ["count", ["L", ["bl", True], ["bl", False]]], ["il", 1]],
              ["fold_and", ["L", ["bl", True]]], ["fold_or", ["L", ["bl", False], ["G"]]], ["bl", True], ["bl", False],
              ["cmp", "ge", ["count", ["T", ["bv", 0], ["bl", True]]], ["iv", 1]],
              ["alldiff", [["iv", 1], ["il", 1], ["il", 2]]], ["nand", []], ["nor", []],
              ["cmp", "lt", ["nsub", [["il", 5], ["iv", 1], ["il", 1]]], ["il", 3]],
              ["iff", ["bv", 0], ["fold_or", ["L", ["bl", True], ["bv", 0]]]],
              ["cmp", "eq", ["ccond", ["bl", True], ["iv", 1], ["il", 0]], ["il", 2]],
              ["cthen", ["bl", True], ["bv", 0]], ["cthen", ["bv", 0], ["bl", False]]):
        P.append({"decls": [b, i], "constraints": [c]})
    return P


def boundary_programs(rng, n):
    """Each declared bound must be attainable and must not be exceedable, for all domain sizes."""
    out = []
    for _ in range(n):
        size = rng.choice([1, 2, 3, 5, 6, 7, 9, 12, 31, 100, 1000, 10 ** 6, 2 ** 33])
        lo = rng.choice([0, 1, -1, -size, -size // 2, -7, 1000, -(2 ** 31) - 5])
        hi = lo + size - 1
        k = rng.choice(["eq_hi", "eq_lo", "ge_hi", "le_lo", "gt_hi", "lt_lo", "sum_hi", "neg_lo"])
        iv = ["iv", 0]
        c = {"eq_hi": ["cmp", "eq", iv, ["il", hi]], "eq_lo": ["cmp", "eq", iv, ["il", lo]],
             "ge_hi": ["cmp", "ge", iv, ["il", hi]], "le_lo": ["cmp", "le", iv, ["il", lo]],
             "gt_hi": ["cmp", "gt", iv, ["il", hi]], "lt_lo": ["cmp", "lt", iv, ["il", lo]],
             "sum_hi": ["cmp", "eq", ["add", iv, ["iv", 1]], ["il", hi + 1]],
             "neg_lo": ["cmp", "eq", ["neg", iv], ["il", -lo]]}[k]
        out.append({"decls": [["i", lo, hi], ["i", 0, 1], ["b"]], "constraints": [c]})
    return out


def run(ctx):
    z = sizes(ctx.tier)
    assert cspuz.config.default_backend == "z3", cspuz.config.default_backend
    st = msolve.install(ctx, owner="C01", brute_cap=1 << 13, smt=(2 if ctx.tier == "thorough" else 1), judge_exc=True)
    st.collect_ops = True
    rng = ctx.rng
    for k, p in enumerate(fixed_programs()):
        if ctx.mine(k):
            run_program(ctx, st, p, "fixed")
            ctx.count("c01.fixed_programs")
    for k in range(z["programs"]):
        p = progs.gen_program(rng)
        with ctx.guard(60):
            run_program(ctx, st, p, "random")
        if k < 2:
            ctx.sample(p)
    for p in boundary_programs(rng, z["wide"] * 3):
        with ctx.guard(120):
            run_program(ctx, st, p, "boundary")
        ctx.count("c01.boundary_programs")
    for k in range(z["wide"]):
        p = progs.gen_program(rng, max_vars=4, cap=1 << 62, wide=True, depth=rng.choice([1, 2, 3]))
        with ctx.guard(120):
            run_program(ctx, st, p, "wide")
        ctx.count("c01.wide_programs")
    for k in range(z["sessions"]):
        sess = gen_session(rng)
        with ctx.guard(120):
            run_session(ctx, st, sess)
        if k < 1:
            ctx.sample(sess)
    for k in range(z["sessions"] // 12 + 2):
        sess = gen_crossing_session(rng, 10 if k % 6 else 100)
        with ctx.guard(180):
            run_session(ctx, st, sess)
        ctx.count("c01.sessions_crossing_%d" % sess["crossing"])
    # realistic programs: graph encodings and a puzzle solver on tiny boards (same Solver object)
    realistic(ctx, st)
    from .c13 import realistic_stage

    st.smt = False  # the repository's tests post larger programs; model genuineness is still checked on every SAT answer
    realistic_stage(ctx, ctx.tier == "thorough")
    for name, n in st.op_hist.items():
        ctx.count("op." + name, n)
    msolve.uninstall()


def realistic(ctx, st):
    from cspuz import graph

    rng = ctx.rng
    for k in range(6 if ctx.tier == "quick" else 60):
        h, w = rng.choice([(1, 3), (2, 2), (2, 3), (3, 3)])
        s = cspuz.Solver()
        a = s.bool_array((h, w))
        kind = rng.choice(["conn", "acyc", "nseg", "div"])
        ctx.current_case = {"kind": "graph-program", "enc": kind, "shape": [h, w]}
        if kind == "conn":
            graph.active_vertices_connected(s, a)
        elif kind == "acyc":
            graph.active_vertices_connected(s, a, acyclic=True)
        elif kind == "nseg":
            graph.active_vertices_not_adjacent_and_not_segmenting(s, a)
        else:
            d = s.int_array((h, w), 0, 1)
            graph.division_connected(s, d, 2)
            s.ensure(a == (d == 0))
        pat = [rng.random() < 0.5 for _ in range(h * w)]
        for v, p in zip(a, pat):
            s.ensure(v if p else ~v)
        s.find_answer()
        ctx.case(["graph", kind, h, w, pat], nontrivial=st.last.get("oracle") is not None)
        ctx.count("c01.realistic_graph")
    # a planted instance large enough to keep the back end busy, with the subprocess time limit knob set: the verdict must not
    # depend on it (the planted assignment proves satisfiability; the reported model is checked by M-SOLVE as always)
    for k in range(2 if ctx.tier == "quick" else 10):
        n = rng.choice([5, 6, 7])
        sh = rng.sample(range(n), n)
        sol = [[(sh[x] + y) % n for x in range(n)] for y in range(n)]
        s = cspuz.Solver()
        a = s.int_array((n, n), 0, n - 1)
        for i in range(n):
            s.ensure(cspuz.alldifferent(a[i, :]))
            s.ensure(cspuz.alldifferent(a[:, i]))
        for y in range(n):
            for x in range(n):
                if rng.random() < 0.3:
                    s.ensure(a[y, x] == sol[y][x])
        ctx.current_case = {"kind": "planted-latin", "n": n, "solution": sol}
        old = cspuz.config.solver_timeout
        cspuz.config.solver_timeout = rng.choice([0.001, 0.01])
        try:
            res = s.find_answer()
        finally:
            cspuz.config.solver_timeout = old
        ctx.case(["planted-latin", n, sol, k], nontrivial=True)
        ctx.count("c01.planted_with_timeout_knob")
        if res is not True:
            ctx.violation("planted:find_answer-says-unsat", f"find_answer returned {res!r} for a program with a planted solution "
                          "(config.solver_timeout set)", ctx.current_case)


def finalize(counters, tier):
    missing = [o for o in ALL_OPS if counters.get("op." + o, 0) == 0]
    return {"operators_seen": {k[3:]: v for k, v in counters.items() if k.startswith("op.")},
            "operators_missing": missing}


def required(tier):
    return REQUIRED + ["op." + o for o in ALL_OPS]


def replay(w, ctx):
    st = msolve.install(ctx, owner="C01", brute_cap=1 << 13, smt=1, judge_exc=True)
    case = w.get("case") or w
    if case.get("kind") == "session":
        run_session(ctx, st, {"steps": case["steps"]})
    elif "prog" in case:
        run_program(ctx, st, case["prog"], "replay")
    print(json.dumps(st.last, default=repr))
