"""Big-step reference semantics of cspuz expression trees.

Walks only the public tree (e.op / e.operands / variable id); shares no code
with any backend.  Raises IllTyped when an operand has the wrong kind, which is
how 'well-typed' (C01) is made checkable.
"""
from cspuz.expr import Op, Expr, BoolVar, IntVar

from . import graphdefs as G


class IllTyped(Exception):
    pass


_CMP = {
    Op.EQ: lambda a, b: a == b,
    Op.NE: lambda a, b: a != b,
    Op.LE: lambda a, b: a <= b,
    Op.LT: lambda a, b: a < b,
    Op.GE: lambda a, b: a >= b,
    Op.GT: lambda a, b: a > b,
}


def _int(v):
    if type(v) is not int:
        raise IllTyped(f"int expected, got {type(v).__name__}")
    return v


def _bool(v):
    if type(v) is not bool:
        raise IllTyped(f"bool expected, got {type(v).__name__}")
    return v


def ev(e, env):
    """Value (Python bool or int) of expression e under env: var id -> value."""
    if type(e) is bool or type(e) is int:
        return e
    if not isinstance(e, Expr):
        raise IllTyped(f"not an expression: {type(e).__name__}")
    op = e.op
    if op is Op.VAR:
        v = env[e.id]
        if isinstance(e, BoolVar):
            return _bool(v)
        if isinstance(e, IntVar):
            return _int(v)
        raise IllTyped("VAR node that is not a variable")
    xs = e.operands
    if op is Op.BOOL_CONSTANT:
        if len(xs) != 1:
            raise IllTyped("arity")
        return _bool(xs[0])
    if op is Op.INT_CONSTANT:
        if len(xs) != 1:
            raise IllTyped("arity")
        return _int(xs[0])
    if op is Op.NEG:
        if len(xs) != 1:
            raise IllTyped("arity")
        return -_int(ev(xs[0], env))
    if op is Op.ADD:
        if len(xs) < 1:
            raise IllTyped("arity")
        return sum(_int(ev(x, env)) for x in xs)
    if op is Op.SUB:
        if len(xs) < 2:
            raise IllTyped("arity")
        r = _int(ev(xs[0], env))
        for x in xs[1:]:
            r -= _int(ev(x, env))
        return r
    if op in _CMP:
        if len(xs) != 2:
            raise IllTyped("arity")
        return _CMP[op](_int(ev(xs[0], env)), _int(ev(xs[1], env)))
    if op is Op.NOT:
        if len(xs) != 1:
            raise IllTyped("arity")
        return not _bool(ev(xs[0], env))
    if op is Op.AND:
        r = True
        for x in xs:  # no short cut: every operand must be well-typed
            r = _bool(ev(x, env)) and r
        return r
    if op is Op.OR:
        r = False
        for x in xs:
            r = _bool(ev(x, env)) or r
        return r
    if op is Op.IFF:
        if len(xs) != 2:
            raise IllTyped("arity")
        return _bool(ev(xs[0], env)) == _bool(ev(xs[1], env))
    if op is Op.XOR:
        if len(xs) != 2:
            raise IllTyped("arity")
        return _bool(ev(xs[0], env)) != _bool(ev(xs[1], env))
    if op is Op.IMP:
        if len(xs) != 2:
            raise IllTyped("arity")
        a = _bool(ev(xs[0], env))
        b = _bool(ev(xs[1], env))
        return (not a) or b
    if op is Op.IF:
        if len(xs) != 3:
            raise IllTyped("arity")
        c = _bool(ev(xs[0], env))
        t = _int(ev(xs[1], env))
        f = _int(ev(xs[2], env))
        return t if c else f
    if op is Op.ALLDIFF:
        vals = [_int(ev(x, env)) for x in xs]
        return len(set(vals)) == len(vals)
    if op is Op.GRAPH_ACTIVE_VERTICES_CONNECTED:
        n, m = _int(xs[0]), _int(xs[1])
        if len(xs) != 2 + n + 2 * m:
            raise IllTyped("native arity")
        act = [_bool(ev(x, env)) for x in xs[2:2 + n]]
        flat = [_int(x) for x in xs[2 + n:]]
        edges = [(flat[2 * i], flat[2 * i + 1]) for i in range(m)]
        return G.induced_connected(n, edges, act)
    if op is Op.GRAPH_DIVISION:
        n, m = _int(xs[0]), _int(xs[1])
        if len(xs) != 2 + n + 3 * m:
            raise IllTyped("native arity")
        sizes = [None if x is None else _int(ev(x, env)) for x in xs[2:2 + n]]
        flat = [_int(x) for x in xs[2 + n:2 + n + 2 * m]]
        edges = [(flat[2 * i], flat[2 * i + 1]) for i in range(m)]
        border = [_bool(ev(x, env)) for x in xs[2 + n + 2 * m:]]
        return G.borders_ok(n, edges, border, sizes)
    raise IllTyped(f"unknown op {op}")


def kind(e):
    """'bool' / 'int' of an expression-like, by the op table of the property (not by class)."""
    if type(e) is bool:
        return "bool"
    if type(e) is int:
        return "int"
    if isinstance(e, BoolVar):
        return "bool"
    if isinstance(e, IntVar):
        return "int"
    if isinstance(e, Expr):
        if e.op in (Op.INT_CONSTANT, Op.NEG, Op.ADD, Op.SUB, Op.IF):
            return "int"
        return "bool"
    return None


def var_ids(e, acc=None):
    """Set of variable ids occurring in e."""
    if acc is None:
        acc = set()
    stack = [e]
    while stack:
        x = stack.pop()
        if isinstance(x, Expr):
            if x.op is Op.VAR:
                acc.add(x.id)
            else:
                stack.extend(x.operands)
    return acc


def tree_ops(e, acc):
    """Histogram of ops in e (acc: dict name -> count); also arities for AND/OR/ADD/SUB/ALLDIFF."""
    stack = [e]
    while stack:
        x = stack.pop()
        if isinstance(x, Expr):
            name = x.op.name
            if x.op in (Op.AND, Op.OR, Op.ADD, Op.SUB, Op.ALLDIFF):
                k = len(x.operands)
                name = f"{name}/{k if k < 3 else 'n'}"
            acc[name] = acc.get(name, 0) + 1
            if x.op is not Op.VAR:
                stack.extend(x.operands)
        elif type(x) is bool:
            acc["pybool"] = acc.get("pybool", 0) + 1
        elif type(x) is int:
            acc["pyint"] = acc.get("pyint", 0) + 1
