"""Independent decoder of the puzz.link / pzv (pzpr) URL encodings used by the
cspuz puzzle modules (C16).  Written from the pzpr format conventions, not from
cspuz' combinators.  Every decoder returns the decoded cells and the number of
characters consumed; malformed input raises Bad."""


class Bad(Exception):
    pass


def split_url(url):
    """-> (name, cols, rows, parts_after_rows)   for  scheme://host/p?name/cols/rows/...  (also p.html?)"""
    if "?" not in url:
        raise Bad("no query")
    head, q = url.split("?", 1)
    if not (head.startswith("http://") or head.startswith("https://")):
        raise Bad("scheme")
    if not (head.endswith("/p") or head.endswith("/p.html")):
        raise Bad("path")
    parts = q.split("/")
    if len(parts) < 4:
        raise Bad("too few fields")
    return parts[0], int(parts[1]), int(parts[2]), parts[3:]


def _hex(s):
    if not s or any(c not in "0123456789abcdef" for c in s):
        raise Bad(f"bad hex {s!r}")
    return int(s, 16)


def number16(body, n, pos=0, blank=None, question="?"):
    """decodeNumber16: n cells.  0-9a-f value; -hh; +hhh; '.' question; g-z skip (c - 'f') cells."""
    cells = []
    i = pos
    while len(cells) < n:
        if i >= len(body):
            raise Bad("body too short")
        c = body[i]
        if c in "0123456789abcdef":
            cells.append(_hex(c))
            i += 1
        elif c == "-":
            cells.append(_hex(body[i + 1:i + 3]) if len(body) >= i + 3 else _raise())
            i += 3
        elif c == "+":
            cells.append(_hex(body[i + 1:i + 4]) if len(body) >= i + 4 else _raise())
            i += 4
        elif c == ".":
            cells.append(question)
            i += 1
        elif "g" <= c <= "z":
            cells += [blank] * (ord(c) - ord("f"))
            i += 1
        else:
            raise Bad(f"bad char {c!r}")
    return cells[:n], i


def _raise():
    raise Bad("truncated")


def four_cell(body, n, pos=0, blank=None):
    """decode4Cell (slitherlink)."""
    cells = []
    i = pos
    while len(cells) < n:
        if i >= len(body):
            raise Bad("body too short")
        c = body[i]
        i += 1
        if c in "01234":
            cells.append(int(c))
        elif c in "56789":
            cells += [int(c) - 5, blank]
        elif c in "abcde":
            cells += [ord(c) - ord("a"), blank, blank]
        elif "g" <= c <= "z":
            cells += [blank] * (ord(c) - ord("f"))
        else:
            raise Bad(f"bad char {c!r}")
    return cells[:n], i


def circle(body, n, pos=0):
    """decodeCircle (masyu): base-36 digit < 27 = three base-3 cells, most significant first."""
    cells = []
    i = pos
    while len(cells) < n:
        if i >= len(body):
            raise Bad("body too short")
        v = "0123456789abcdefghijklmnopqrstuvwxyz".find(body[i])
        i += 1
        if v < 0 or v >= 27:
            raise Bad("bad circle char")
        cells += [v // 9, (v // 3) % 3, v % 3]
    return cells[:n], i


def arrow_number16(body, n, pos=0):
    """decodeArrowNumber16 (yajilin).  Returns cells as None (no clue) or (dir, number|None); dir 0 = no direction,
    1 up 2 down 3 left 4 right."""
    cells = []
    i = pos
    while len(cells) < n:
        if i >= len(body):
            raise Bad("body too short")
        c = body[i]
        if c in "01234":
            if i + 1 >= len(body):
                raise Bad("truncated")
            d = body[i + 1]
            cells.append((int(c), None if d == "." else _hex(d)))
            i += 2
        elif c in "56789":
            cells.append((int(c) - 5, _hex(body[i + 1:i + 3]) if len(body) >= i + 3 else _raise()))
            i += 3
        elif "a" <= c <= "z":
            cells += [None] * (ord(c) - ord("a") + 1)
            i += 1
        else:
            raise Bad(f"bad char {c!r}")
    return cells[:n], i


def border(body, cols, rows, pos=0):
    """decodeBorder: vertical borders ((cols-1)*rows, row-major) then horizontal (cols*(rows-1)), 5 bits per char,
    most significant first, each part padded to whole characters.  -> (room id grid, consumed position)."""
    def bits(count, i):
        out = []
        nch = (count + 4) // 5
        if i + nch > len(body):
            raise Bad("border too short")
        for k in range(nch):
            v = "0123456789abcdefghijklmnopqrstuv".find(body[i + k])
            if v < 0:
                raise Bad("bad border char")
            for b in (16, 8, 4, 2, 1):
                out.append(1 if v & b else 0)
        return out[:count], i + nch

    vb, i = bits((cols - 1) * rows, pos)
    hb, i = bits(cols * (rows - 1), i)
    rid = [[-1] * cols for _ in range(rows)]
    nxt = 0
    for y0 in range(rows):
        for x0 in range(cols):
            if rid[y0][x0] != -1:
                continue
            stack = [(y0, x0)]
            rid[y0][x0] = nxt
            while stack:
                y, x = stack.pop()
                for ny, nx, blocked in ((y, x + 1, x + 1 < cols and vb[y * (cols - 1) + x]),
                                        (y, x - 1, x - 1 >= 0 and vb[y * (cols - 1) + x - 1]),
                                        (y + 1, x, y + 1 < rows and hb[y * cols + x]),
                                        (y - 1, x, y - 1 >= 0 and hb[(y - 1) * cols + x])):
                    if 0 <= ny < rows and 0 <= nx < cols and not blocked and rid[ny][nx] == -1:
                        rid[ny][nx] = nxt
                        stack.append((ny, nx))
            nxt += 1
    # renumber rooms by first cell in row-major order (flood fill above already discovers them in that order)
    return rid, i, vb, hb


def rooms_of(rid):
    rooms = {}
    for y, row in enumerate(rid):
        for x, r in enumerate(row):
            rooms.setdefault(r, []).append((y, x))
    return [rooms[k] for k in sorted(rooms)]


def compass(body, cols, rows):
    """compass: per clue cell four values up, down, left, right (hex digit, -hh, or '.'); g-z skip (c - 'f') cells."""
    out = []
    pos = 0
    i = 0
    while i < len(body):
        c = body[i]
        if "g" <= c <= "z":
            pos += ord(c) - ord("f")
            i += 1
            continue
        vals = []
        for _ in range(4):
            if i >= len(body):
                raise Bad("truncated compass cell")
            c = body[i]
            if c == ".":
                vals.append(None)
                i += 1
            elif c == "-":
                vals.append(_hex(body[i + 1:i + 3]))
                i += 3
            else:
                vals.append(_hex(c))
                i += 1
        out.append((pos // cols, pos % cols, vals[0], vals[1], vals[2], vals[3]))  # y, x, up, down, left, right
        pos += 1
    if pos > cols * rows:
        raise Bad("compass body overruns the board")
    return out
