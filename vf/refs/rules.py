"""Definition-level rule oracles for the bundled puzzle solvers (C11).

For each puzzle: gen(rng) -> instance (JSON-able), truth(instance) -> {reading: [solution dict, ...]} computed by
exhaustive search over the candidate answer space using only the published rules (no CSP), and solve(instance) ->
(is_sat, {key: sol}) which calls the real solve_<puzzle>.  Where a published rule leaves a corner open the truth is
computed under every reading; the driver judges an instance only if all readings agree.
Readings / formats: DESIGN.md Appendix A."""
import itertools

N4 = ((1, 0), (-1, 0), (0, 1), (0, -1))


def allc(h, w):
    return [(y, x) for y in range(h) for x in range(w)]


def conn(cells):
    cells = set(cells)
    if not cells:
        return True
    st = [next(iter(cells))]
    seen = {st[0]}
    while st:
        y, x = st.pop()
        for dy, dx in N4:
            p = (y + dy, x + dx)
            if p in cells and p not in seen:
                seen.add(p)
                st.append(p)
    return len(seen) == len(cells)


def comps(cells):
    cells = set(cells)
    out = []
    while cells:
        s = cells.pop()
        st = [s]
        c = {s}
        while st:
            y, x = st.pop()
            for dy, dx in N4:
                p = (y + dy, x + dx)
                if p in cells:
                    cells.discard(p)
                    c.add(p)
                    st.append(p)
        out.append(c)
    return out


def cellsets(h, w):
    cells = allc(h, w)
    for bits in itertools.product((0, 1), repeat=h * w):
        yield {c for c, b in zip(cells, bits) if b}


def randrooms(rng, h, w, k):
    cells = allc(h, w)
    rng.shuffle(cells)
    k = max(1, min(k, len(cells)))
    owner = {s: i for i, s in enumerate(cells[:k])}
    while len(owner) < h * w:
        p = rng.choice(list(owner))
        dy, dx = rng.choice(N4)
        q = (p[0] + dy, p[1] + dx)
        if 0 <= q[0] < h and 0 <= q[1] < w and q not in owner:
            owner[q] = owner[p]
    rooms = [[] for _ in range(k)]
    for c in allc(h, w):
        rooms[owner[c]].append(c)
    return [[list(c) for c in r] for r in rooms if r]


def tup(rooms):
    return [[tuple(c) for c in r] for r in rooms]


_CYC = {}


def all_cycles(H, W):
    """All simple cycles of the H x W point lattice (as frozensets of sorted point pairs) plus the empty loop."""
    if (H, W) in _CYC:
        return _CYC[(H, W)]
    res = set()

    def nb(p):
        for dy, dx in N4:
            q = (p[0] + dy, p[1] + dx)
            if 0 <= q[0] < H and 0 <= q[1] < W:
                yield q

    for s in allc(H, W):
        path = [s]
        onp = {s}

        def dfs(p):
            for q in nb(p):
                if q == s and len(path) >= 4:
                    res.add(frozenset(tuple(sorted((path[i], path[(i + 1) % len(path)]))) for i in range(len(path))))
                elif q not in onp and q > s:
                    path.append(q)
                    onp.add(q)
                    dfs(q)
                    path.pop()
                    onp.discard(q)
        dfs(s)
    out = [frozenset()] + sorted(res, key=lambda e: (len(e), sorted(e)))
    _CYC[(H, W)] = out
    return out


def edge(c, a, b):
    return tuple(sorted((a, b))) in c


def frame_dict(h, w, c):
    """Cell-centre loop on an h x w board: keys ('h', y, x) for (y,x)-(y,x+1) and ('v', y, x) for (y,x)-(y+1,x)."""
    d = {}
    for y in range(h):
        for x in range(w):
            if x < w - 1:
                d[f"h{y},{x}"] = edge(c, (y, x), (y, x + 1))
            if y < h - 1:
                d[f"v{y},{x}"] = edge(c, (y, x), (y + 1, x))
    return d


def cycle_of(h, w, got):
    """The edge set (frozenset of sorted point pairs) described by a full frame dict if it is one simple cycle or empty, else None."""
    es = set()
    for k, v in got.items():
        if v is not True and v is not False:
            return None
        if v:
            y, x = map(int, k[1:].split(","))
            es.add(((y, x), (y, x + 1)) if k[0] == "h" else ((y, x), (y + 1, x)))
    if not es:
        return frozenset()
    deg, adj = {}, {}
    for a, b in es:
        for p, q in ((a, b), (b, a)):
            deg[p] = deg.get(p, 0) + 1
            adj.setdefault(p, []).append(q)
    if any(d != 2 for d in deg.values()):
        return None
    st = [next(iter(adj))]
    seen = {st[0]}
    while st:
        p = st.pop()
        for q in adj[p]:
            if q not in seen:
                seen.add(q)
                st.append(q)
    if len(seen) != len(adj):
        return None
    return frozenset(tuple(sorted(e)) for e in es)


def frame_got(h, w, gf):
    d = {}
    for y in range(h):
        for x in range(w):
            if x < w - 1:
                d[f"h{y},{x}"] = gf.horizontal[y, x].sol
            if y < h - 1:
                d[f"v{y},{x}"] = gf.vertical[y, x].sol
    return d


def grid_got(h, w, arr):
    return {f"{y},{x}": arr[y, x].sol for y in range(h) for x in range(w)}


def set_sol(h, w, S):
    return {f"{y},{x}": ((y, x) in S) for y in range(h) for x in range(w)}


def arms(c, p):
    return [d for d in N4 if edge(c, p, (p[0] + d[0], p[1] + d[1]))]


def straight(a):
    return len(a) == 2 and a[0][0] == -a[1][0] and a[0][1] == -a[1][1]


def runlen(c, p, d):
    k = 0
    while edge(c, p, (p[0] + d[0], p[1] + d[1])):
        p = (p[0] + d[0], p[1] + d[1])
        k += 1
    return k


SHAPES = [(1, 1), (1, 3), (3, 1), (2, 2), (2, 3), (3, 2), (3, 3), (2, 4), (4, 2), (3, 4), (1, 5)]
LSHAPES = [(1, 1), (1, 3), (3, 1), (2, 2), (2, 3), (3, 2), (3, 3), (3, 4), (4, 3), (4, 4), (2, 5)]


def pick_shape(rng, shapes, maxcells):
    return rng.choice([s for s in shapes if s[0] * s[1] <= maxcells])


class Spec:
    def __init__(self, name, gen, truth, solve):
        self.name, self.gen, self.truth, self.solve = name, gen, truth, solve


PUZZLES = {}


def register(name, gen, truth, solve, check_model=None):
    PUZZLES[name] = Spec(name, gen, truth, solve)
    PUZZLES[name].check_model = check_model  # (instance, full answer dict) -> True / False (rule-obeying grid or not); None = no validator


# ======================================================================================= slitherlink
def _slither_gen(rng, big):
    h, w = pick_shape(rng, [(1, 1), (1, 2), (2, 1), (2, 2), (2, 3), (3, 2), (1, 4), (3, 3), (3, 4), (4, 3)], 12 if big else 6)
    return {"h": h, "w": w, "p": [[rng.choice([-1, -1, -1, 0, 1, 2, 3, 3, 4]) for _ in range(w)] for _ in range(h)]}


def _slither_truth(i):
    h, w, p = i["h"], i["w"], i["p"]
    sols = []
    for c in all_cycles(h + 1, w + 1):
        ok = True
        for y in range(h):
            for x in range(w):
                if p[y][x] >= 0:
                    sides = [((y, x), (y, x + 1)), ((y + 1, x), (y + 1, x + 1)), ((y, x), (y + 1, x)), ((y, x + 1), (y + 1, x + 1))]
                    if sum(1 for e in sides if e in c) != p[y][x]:
                        ok = False
        if ok:
            d = {}
            for y in range(h + 1):
                for x in range(w):
                    d[f"h{y},{x}"] = ((y, x), (y, x + 1)) in c
            for y in range(h):
                for x in range(w + 1):
                    d[f"v{y},{x}"] = ((y, x), (y + 1, x)) in c
            sols.append(d)
    return {"std": sols}


def _slither_solve(i):
    from cspuz.puzzle import slitherlink

    h, w = i["h"], i["w"]
    is_sat, gf = slitherlink.solve_slitherlink(h, w, i["p"])
    got = {}
    for y in range(h + 1):
        for x in range(w):
            got[f"h{y},{x}"] = gf.horizontal[y, x].sol
    for y in range(h):
        for x in range(w + 1):
            got[f"v{y},{x}"] = gf.vertical[y, x].sol
    return is_sat, got


def _slither_check(i, got):
    h, w, p = i["h"], i["w"], i["p"]
    # the loop lives on the (h+1) x (w+1) point lattice; keys h{y},{x} / v{y},{x} as in frame_dict of that lattice
    c = cycle_of(h + 1, w + 1, got)
    if c is None:
        return False
    for y in range(h):
        for x in range(w):
            if p[y][x] >= 0:
                sides = [((y, x), (y, x + 1)), ((y + 1, x), (y + 1, x + 1)), ((y, x), (y + 1, x)), ((y, x + 1), (y + 1, x + 1))]
                if sum(1 for e in sides if e in c) != p[y][x]:
                    return False
    return True


register("slitherlink", _slither_gen, _slither_truth, _slither_solve, _slither_check)


# ======================================================================================= yajilin
def _yaj_gen(rng, big):
    h, w = pick_shape(rng, LSHAPES, 16 if big else 12)
    p = [[".."] * w for _ in range(h)]
    for _ in range(rng.choice([0, 1, 1, 2, 3])):
        y, x = rng.randrange(h), rng.randrange(w)
        p[y][x] = rng.choice("^v<>") + str(rng.choice([0, 0, 1, 2])) if rng.random() < 0.85 else "??"
    return {"h": h, "w": w, "p": p}


def _yaj_truth(i):
    h, w, p = i["h"], i["w"], i["p"]
    sols = []
    for c in all_cycles(h, w):
        passed = {q for e in c for q in e}
        black = set()
        ok = True
        for y, x in allc(h, w):
            if p[y][x] != "..":
                if (y, x) in passed:
                    ok = False
            elif (y, x) not in passed:
                black.add((y, x))
        if not ok:
            continue
        if any((y + 1, x) in black or (y, x + 1) in black for y, x in black):
            continue
        for y, x in allc(h, w):
            cl = p[y][x]
            if cl not in ("..", "??"):
                k, d = int(cl[1:]), cl[0]
                if d == "^":
                    cnt = sum(1 for y2 in range(0, y) if (y2, x) in black)
                elif d == "v":
                    cnt = sum(1 for y2 in range(y + 1, h) if (y2, x) in black)
                elif d == "<":
                    cnt = sum(1 for x2 in range(0, x) if (y, x2) in black)
                else:
                    cnt = sum(1 for x2 in range(x + 1, w) if (y, x2) in black)
                if cnt != k:
                    ok = False
        if ok:
            d = frame_dict(h, w, c)
            for y, x in allc(h, w):
                d[f"b{y},{x}"] = (y, x) in black
            sols.append(d)
    return {"std": sols}


def _yaj_solve(i):
    from cspuz.puzzle import yajilin

    h, w = i["h"], i["w"]
    is_sat, gf, bc = yajilin.solve_yajilin(h, w, i["p"])
    got = frame_got(h, w, gf)
    for y, x in allc(h, w):
        got[f"b{y},{x}"] = bc[y, x].sol
    return is_sat, got


def _yaj_check(i, got):
    h, w, p = i["h"], i["w"], i["p"]
    c = cycle_of(h, w, {k: v for k, v in got.items() if k[0] in "hv"})
    if c is None:
        return False
    passed = {q for e in c for q in e}
    black = set()
    for y, x in allc(h, w):
        b = got.get(f"b{y},{x}")
        if b is not True and b is not False:
            return False
        if b:
            black.add((y, x))
    for y, x in allc(h, w):
        if p[y][x] != "..":
            if (y, x) in passed or (y, x) in black:
                return False
        elif ((y, x) in passed) == ((y, x) in black):
            return False  # every blank cell is either on the loop or shaded, never both
    if any((y + 1, x) in black or (y, x + 1) in black for y, x in black):
        return False
    for y, x in allc(h, w):
        cl = p[y][x]
        if cl not in ("..", "??"):
            k, d = int(cl[1:]), cl[0]
            if d == "^":
                cnt = sum(1 for y2 in range(0, y) if (y2, x) in black)
            elif d == "v":
                cnt = sum(1 for y2 in range(y + 1, h) if (y2, x) in black)
            elif d == "<":
                cnt = sum(1 for x2 in range(0, x) if (y, x2) in black)
            else:
                cnt = sum(1 for x2 in range(x + 1, w) if (y, x2) in black)
            if cnt != k:
                return False
    return True


register("yajilin", _yaj_gen, _yaj_truth, _yaj_solve, _yaj_check)


# ======================================================================================= nurikabe
def _nk_gen(rng, big):
    h, w = pick_shape(rng, SHAPES, 12 if big else 9)
    p = [[0] * w for _ in range(h)]
    for _ in range(rng.choice([0, 1, 2, 2, 3])):
        p[rng.randrange(h)][rng.randrange(w)] = rng.choice([1, 2, 3, 4, -1])
    inst = {"h": h, "w": w, "p": p}
    if rng.random() < 0.3:
        # the lower bound applies to '?' islands only (also when the board has none)
        inst["unknown_low"] = rng.choice([1, 2, 3, 4])
    return inst


def _nk_truth(i):
    h, w, p = i["h"], i["w"], i["p"]
    low = i.get("unknown_low")
    out = {"sea-may-be-empty": [], "sea-nonempty": []}
    for white in cellsets(h, w):
        black = set(allc(h, w)) - white
        if not conn(black):
            continue
        if any(all(q in black for q in ((y, x), (y + 1, x), (y, x + 1), (y + 1, x + 1))) for y in range(h - 1) for x in range(w - 1)):
            continue
        if any(p[y][x] != 0 and (y, x) in black for y, x in allc(h, w)):
            continue
        ok = True
        for c in comps(white):
            cl = [p[y][x] for (y, x) in c if p[y][x] != 0]
            if len(cl) != 1:
                ok = False
            elif cl[0] > 0 and cl[0] != len(c):
                ok = False
            elif cl[0] == -1 and low is not None and len(c) < low:
                ok = False
        if ok:
            s = set_sol(h, w, white)
            out["sea-may-be-empty"].append(s)
            if black:
                out["sea-nonempty"].append(s)
    return out


def _nk_solve(i):
    from cspuz.puzzle import nurikabe

    h, w = i["h"], i["w"]
    if "unknown_low" in i:
        is_sat, iw = nurikabe.solve_nurikabe(h, w, i["p"], unknown_low=i["unknown_low"])
    else:
        is_sat, iw = nurikabe.solve_nurikabe(h, w, i["p"])
    return is_sat, grid_got(h, w, iw)


def _nk_check(i, got):
    h, w, p = i["h"], i["w"], i["p"]
    if any(v is not True and v is not False for v in got.values()):
        return False
    white = {tuple(map(int, k.split(","))) for k, v in got.items() if v}
    black = set(allc(h, w)) - white
    if not conn(black):
        return False
    if any(all(q in black for q in ((y, x), (y + 1, x), (y, x + 1), (y + 1, x + 1))) for y in range(h - 1) for x in range(w - 1)):
        return False
    if any(p[y][x] != 0 and (y, x) in black for y, x in allc(h, w)):
        return False
    low = i.get("unknown_low")
    for c in comps(white):
        cl = [p[y][x] for (y, x) in c if p[y][x] != 0]
        if len(cl) != 1 or (cl[0] > 0 and cl[0] != len(c)) or (cl[0] == -1 and low is not None and len(c) < low):
            return False
    return True


register("nurikabe", _nk_gen, _nk_truth, _nk_solve, _nk_check)


# ======================================================================================= generic shading puzzles
def shading(name, gen, valid, solve, readings=("std",)):
    def truth(i):
        h, w = i["h"], i["w"]
        out = {}
        for r in readings:
            out[r] = [set_sol(h, w, S) for S in cellsets(h, w) if valid(i, S, r)]
        return out

    def check_model(i, got):
        # a full assignment of the shading: rule-obeying under at least one admitted reading
        S = {tuple(map(int, k.split(","))) for k, v in got.items() if v is True}
        if any(v is not True and v is not False for v in got.values()):
            return False
        return any(valid(i, S, r) for r in readings)
    register(name, gen, truth, solve, check_model)


# ---- heyawake
def _hey_gen(rng, big):
    h, w = pick_shape(rng, SHAPES, 12 if big else 9)
    if rng.random() < 0.35:
        # rectangular rooms, handed over in the solver's rectangular form [(y0, x0, y1, x1, clue)] in an arbitrary order
        rects = [(0, 0, h, w)]
        for _ in range(rng.randint(0, 5)):
            k = rng.randrange(len(rects))
            y0, x0, y1, x1 = rects[k]
            if (y1 - y0 > 1) and (x1 - x0 == 1 or rng.random() < 0.5):
                c = rng.randint(y0 + 1, y1 - 1)
                rects[k:k + 1] = [(y0, x0, c, x1), (c, x0, y1, x1)]
            elif x1 - x0 > 1:
                c = rng.randint(x0 + 1, x1 - 1)
                rects[k:k + 1] = [(y0, x0, y1, c), (y0, c, y1, x1)]
        rng.shuffle(rects)
        rooms = [[[y, x] for y in range(y0, y1) for x in range(x0, x1)] for y0, x0, y1, x1 in rects]
        return {"h": h, "w": w, "rooms": rooms, "rects": [list(r) for r in rects], "clues": [rng.choice([-1, -1, 0, 1, 2, 3, (len(rm) + 1) // 2]) for rm in rooms]}
    rooms = randrooms(rng, h, w, rng.choice([1, 2, 3, 4]))
    return {"h": h, "w": w, "rooms": rooms, "clues": [rng.choice([-1, -1, 0, 1, 2, 3, (len(rm) + 1) // 2]) for rm in rooms]}


def _hey_valid(i, B, r):
    h, w = i["h"], i["w"]
    rooms = tup(i["rooms"])
    if any((y + 1, x) in B or (y, x + 1) in B for y, x in B):
        return False
    if not conn(set(allc(h, w)) - B):
        return False
    rid = {c: k for k, rm in enumerate(rooms) for c in rm}
    for rm, c in zip(rooms, i["clues"]):
        if c >= 0 and sum(1 for q in rm if q in B) != c:
            return False
    for y in range(h):
        x = 0
        while x < w:
            if (y, x) in B:
                x += 1
                continue
            x2, cross = x, 0
            while x2 + 1 < w and (y, x2 + 1) not in B:
                if rid[(y, x2)] != rid[(y, x2 + 1)]:
                    cross += 1
                x2 += 1
            if cross >= 2:
                return False
            x = x2 + 1
    for x in range(w):
        y = 0
        while y < h:
            if (y, x) in B:
                y += 1
                continue
            y2, cross = y, 0
            while y2 + 1 < h and (y2 + 1, x) not in B:
                if rid[(y2, x)] != rid[(y2 + 1, x)]:
                    cross += 1
                y2 += 1
            if cross >= 2:
                return False
            y = y2 + 1
    return True


def _hey_solve(i):
    from cspuz.puzzle import heyawake

    if i.get("rects"):
        is_sat, arr = heyawake.solve_heyawake(i["h"], i["w"], [tuple(r) + (c,) for r, c in zip(i["rects"], i["clues"])])
    else:
        is_sat, arr = heyawake.solve_heyawake(i["h"], i["w"], tup(i["rooms"]), i["clues"])
    return is_sat, grid_got(i["h"], i["w"], arr)


shading("heyawake", _hey_gen, _hey_valid, _hey_solve)


# ---- akari
def _ak_gen(rng, big):
    h, w = pick_shape(rng, SHAPES, 12 if big else 9)
    if rng.random() < 0.5:
        # mostly white boards with a few walls: long runs that start / end at unnumbered walls, numbered walls and the edge
        return {"h": h, "w": w, "p": [[rng.choice([-2] * 8 + [-1, -1, 0, 1, 2, 4]) for _ in range(w)] for _ in range(h)]}
    return {"h": h, "w": w, "p": [[rng.choice([-2, -2, -2, -1, 0, 1, 2, 3]) for _ in range(w)] for _ in range(h)]}


def _ak_valid(i, L, r):
    h, w, p = i["h"], i["w"], i["p"]
    if any(p[y][x] != -2 for y, x in L):
        return False

    def sees(y, x):
        for dy, dx in N4:
            yy, xx = y + dy, x + dx
            while 0 <= yy < h and 0 <= xx < w and p[yy][xx] == -2:
                yield (yy, xx)
                yy += dy
                xx += dx

    for y, x in allc(h, w):
        if p[y][x] == -2:
            s = list(sees(y, x))
            if (y, x) in L:
                if any(q in L for q in s):
                    return False
            elif not any(q in L for q in s):
                return False
        elif p[y][x] >= 0:
            if sum(1 for dy, dx in N4 if (y + dy, x + dx) in L) != p[y][x]:
                return False
    return True


def _ak_solve(i):
    from cspuz.puzzle import akari

    is_sat, arr = akari.solve_akari(i["h"], i["w"], i["p"])
    return is_sat, grid_got(i["h"], i["w"], arr)


shading("akari", _ak_gen, _ak_valid, _ak_solve)


# ---- norinori
def _rooms_gen(kmax):
    def gen(rng, big):
        h, w = pick_shape(rng, SHAPES, 12 if big else 9)
        return {"h": h, "w": w, "rooms": randrooms(rng, h, w, rng.randint(1, kmax))}
    return gen


def _nori_valid(i, B, r):
    if any(sum(1 for dy, dx in N4 if (y + dy, x + dx) in B) != 1 for y, x in B):
        return False
    return all(sum(1 for q in rm if q in B) == 2 for rm in tup(i["rooms"]))


def _nori_solve(i):
    from cspuz.puzzle import norinori

    is_sat, arr = norinori.solve_norinori(i["h"], i["w"], tup(i["rooms"]))
    return is_sat, grid_got(i["h"], i["w"], arr)


shading("norinori", _rooms_gen(3), _nori_valid, _nori_solve)


# ---- creek / gokigen (vertex clues)
def _vclue_gen(hi):
    def gen(rng, big):
        h, w = pick_shape(rng, SHAPES, 12 if big else 9)
        return {"h": h, "w": w, "p": [[rng.choice([-1, -1, -1, 0, 1, 2, hi]) for _ in range(w + 1)] for _ in range(h + 1)]}
    return gen


def _creek_valid(i, Wh, r):
    h, w, p = i["h"], i["w"], i["p"]
    if not conn(Wh):
        return False
    for y in range(h + 1):
        for x in range(w + 1):
            if p[y][x] >= 0:
                c = sum(1 for yy, xx in ((y - 1, x - 1), (y - 1, x), (y, x - 1), (y, x)) if 0 <= yy < h and 0 <= xx < w and (yy, xx) not in Wh)
                if c != p[y][x]:
                    return False
    return True


def _creek_solve(i):
    from cspuz.puzzle import creek

    is_sat, arr = creek.solve_creek(i["h"], i["w"], i["p"])
    return is_sat, grid_got(i["h"], i["w"], arr)


shading("creek", _vclue_gen(4), _creek_valid, _creek_solve)


def _gok_valid(i, S, r):
    h, w, p = i["h"], i["w"], i["p"]
    par = {}

    def f(a):
        while par.setdefault(a, a) != a:
            par[a] = par[par[a]]
            a = par[a]
        return a

    deg = {}
    for y, x in allc(h, w):
        e = ((y, x), (y + 1, x + 1)) if (y, x) in S else ((y, x + 1), (y + 1, x))
        for v in e:
            deg[v] = deg.get(v, 0) + 1
        a, b = f(e[0]), f(e[1])
        if a == b:
            return False
        par[a] = b
    return all(p[y][x] < 0 or deg.get((y, x), 0) == p[y][x] for y in range(h + 1) for x in range(w + 1))


def _gok_solve(i):
    from cspuz.puzzle import gokigen

    is_sat, arr = gokigen.solve_gokigen(i["h"], i["w"], i["p"])
    return is_sat, grid_got(i["h"], i["w"], arr)


shading("gokigen", _vclue_gen(3), _gok_valid, _gok_solve)


# ---- yinyang
def _yy_gen(rng, big):
    h, w = pick_shape(rng, SHAPES, 12 if big else 9)
    return {"h": h, "w": w, "p": [[rng.choice([0, 0, 0, 1, 2]) for _ in range(w)] for _ in range(h)]}


def _yy_valid(i, B, r):
    h, w, p = i["h"], i["w"], i["p"]
    Wh = set(allc(h, w)) - B
    if not conn(B) or not conn(Wh):
        return False
    for y in range(h - 1):
        for x in range(w - 1):
            k = sum(1 for c in ((y, x), (y + 1, x), (y, x + 1), (y + 1, x + 1)) if c in B)
            if k in (0, 4):
                return False
    for y, x in allc(h, w):
        if p[y][x] == 1 and (y, x) in B:
            return False
        if p[y][x] == 2 and (y, x) not in B:
            return False
    return True


def _yy_solve(i):
    from cspuz.puzzle import yinyang

    is_sat, arr = yinyang.solve_yinyang(i["h"], i["w"], i["p"])
    return is_sat, grid_got(i["h"], i["w"], arr)


shading("yinyang", _yy_gen, _yy_valid, _yy_solve)


# ---- putteria
def _put_valid(i, S, r):
    rooms = tup(i["rooms"])
    if any((y + 1, x) in S or (y, x + 1) in S for y, x in S):
        return False
    if any(sum(1 for q in rm if q in S) != 1 for rm in rooms):
        return False
    size = {c: len(rm) for rm in rooms for c in rm}
    L = list(S)
    return not any(a < b and size[a] == size[b] and (a[0] == b[0] or a[1] == b[1]) for a in L for b in L)


def _put_solve(i):
    from cspuz.puzzle import putteria

    is_sat, arr = putteria.solve_putteria(i["h"], i["w"], tup(i["rooms"]))
    return is_sat, grid_got(i["h"], i["w"], arr)


def _put_gen(rng, big):
    # boards up to 6x6: the truth is enumerated room by room (one number cell per room), not over all cell sets, so tall and wide
    # boards - where equal-sized rooms meet again far apart in a row or column - are affordable
    h, w = rng.choice(SHAPES + [(4, 1), (5, 1), (1, 6), (6, 1), (5, 2), (2, 5), (4, 3), (6, 2), (2, 6), (4, 4), (5, 3), (3, 5)] + ([(5, 5), (6, 4), (4, 6), (6, 6)] if big else []))
    n = h * w
    k = rng.randint(1, max(1, min(8, n // 2)))
    inst = {"h": h, "w": w, "rooms": randrooms(rng, h, w, k)}
    if rng.random() < 0.5 and n >= 6:
        # many small rooms (sizes 1-3, hence many of equal size): the same-number rule is what decides
        inst["rooms"] = randrooms(rng, h, w, rng.randint(max(2, n // 3), max(2, n // 2)))
    return inst


def _put_truth(i):
    h, w = i["h"], i["w"]
    rooms = sorted(tup(i["rooms"]), key=len)
    size = {c: len(rm) for rm in rooms for c in rm}
    sols = []
    chosen = []

    def ok(c):
        for q in chosen:
            if abs(q[0] - c[0]) + abs(q[1] - c[1]) == 1:
                return False
            if size[q] == size[c] and (q[0] == c[0] or q[1] == c[1]):
                return False
        return True

    def rec(k):
        if len(sols) > 20000:
            return
        if k == len(rooms):
            sols.append(set_sol(h, w, set(chosen)))
            return
        for c in rooms[k]:
            if ok(c):
                chosen.append(c)
                rec(k + 1)
                chosen.pop()

    rec(0)
    if len(sols) > 20000:
        return None
    return {"std": sols}


register("putteria", _put_gen, _put_truth, _put_solve,
         lambda i, got: all(v is True or v is False for v in got.values())
         and _put_valid(i, {tuple(map(int, k.split(","))) for k, v in got.items() if v}, "std"))


# ---- nurimisaki
def _nm_gen(rng, big):
    h, w = pick_shape(rng, SHAPES, 12 if big else 9)
    p = [[-1] * w for _ in range(h)]
    for _ in range(rng.choice([0, 1, 1, 2, 3])):
        y, x = rng.randrange(h), rng.randrange(w)
        if rng.random() < 0.4:
            # a numbered cape whose ray of exactly that length ends at the board edge (in a random direction)
            d = rng.choice(["r", "l", "d", "u"])
            n = rng.randint(2, max(2, (w if d in "rl" else h)))
            if d == "r" and w - n >= 0:
                x = w - n
            elif d == "l" and n - 1 < w:
                x = n - 1
            elif d == "d" and h - n >= 0:
                y = h - n
            elif d == "u" and n - 1 < h:
                y = n - 1
            p[y][x] = n
        else:
            p[y][x] = rng.choice([0, 0, 2, 3, 4])
    return {"h": h, "w": w, "p": p}


def _nm_valid(i, Wh, r):
    h, w, p = i["h"], i["w"], i["p"]
    if not conn(Wh):
        return False
    for y in range(h - 1):
        for x in range(w - 1):
            k = sum(1 for c in ((y, x), (y + 1, x), (y, x + 1), (y + 1, x + 1)) if c in Wh)
            if k in (0, 4):
                return False
    for y, x in allc(h, w):
        nb = [d for d in N4 if (y + d[0], x + d[1]) in Wh]
        if p[y][x] == -1:
            if (y, x) in Wh and len(nb) == 1:
                return False
            if r == "lone-cell-is-a-cape" and (y, x) in Wh and len(nb) == 0:
                return False
        else:
            if (y, x) not in Wh or len(nb) != 1:
                return False
            if p[y][x] > 0:
                d = nb[0]
                k, q = 1, (y + d[0], x + d[1])
                while q in Wh:
                    k += 1
                    q = (q[0] + d[0], q[1] + d[1])
                if k != p[y][x]:
                    return False
    return True


def _nm_solve(i):
    from cspuz.puzzle import nurimisaki

    is_sat, arr = nurimisaki.solve_nurimisaki(i["h"], i["w"], i["p"])
    return is_sat, grid_got(i["h"], i["w"], arr)


shading("nurimisaki", _nm_gen, _nm_valid, _nm_solve, readings=("lone-cell-is-no-cape", "lone-cell-is-a-cape"))


# ---- lits
def _shape_of(cells):
    def norm(cs):
        my, mx = min(y for y, x in cs), min(x for y, x in cs)
        return tuple(sorted((y - my, x - mx) for y, x in cs))
    forms = set()
    cs = list(cells)
    for _ in range(4):
        cs = [(x, -y) for y, x in cs]
        forms.add(norm(cs))
        forms.add(norm([(y, -x) for y, x in cs]))
    return min(forms)


def _lits_gen(rng, big):
    h, w = pick_shape(rng, [(2, 2), (2, 4), (4, 2), (3, 3), (3, 4), (4, 3), (4, 4), (2, 5), (1, 4), (2, 6)], 16 if big else 12)
    return {"h": h, "w": w, "rooms": randrooms(rng, h, w, rng.choice([1, 2, 2, 3]))}


def _lits_valid(i, B, r):
    h, w = i["h"], i["w"]
    rooms = tup(i["rooms"])
    if not conn(B):
        return False
    if any(all(c in B for c in ((y, x), (y + 1, x), (y, x + 1), (y + 1, x + 1))) for y in range(h - 1) for x in range(w - 1)):
        return False
    rid = {c: k for k, rm in enumerate(rooms) for c in rm}
    sh = {}
    for k, rm in enumerate(rooms):
        bs = {c for c in rm if c in B}
        if len(bs) != 4 or not conn(bs):
            return False
        sh[k] = _shape_of(bs)
    for y, x in B:
        for d in ((1, 0), (0, 1)):
            q = (y + d[0], x + d[1])
            if q in B and rid[q] != rid[(y, x)] and sh[rid[q]] == sh[rid[(y, x)]]:
                return False
    return True


def _lits_solve(i):
    from cspuz.puzzle import lits

    is_sat, arr = lits.solve_lits(i["h"], i["w"], tup(i["rooms"]))
    return is_sat, grid_got(i["h"], i["w"], arr)


shading("lits", _lits_gen, _lits_valid, _lits_solve)


# ---- aquarium
def _aq_gen(rng, big):
    h, w = pick_shape(rng, SHAPES + [(4, 1), (5, 2), (4, 3)], 12 if big else 9)
    rooms = randrooms(rng, h, w, rng.choice([1, 2, 3]))
    return {"h": h, "w": w, "rooms": rooms, "row": [rng.choice([-1, -1, 0, 1, 2, w - 1, w]) for _ in range(h)],
            "col": [rng.choice([-1, -1, 0, 1, 2, h - 1, h]) for _ in range(w)]}


def _aq_valid(i, S, r):
    h, w = i["h"], i["w"]
    for y in range(h):
        if i["row"][y] >= 0 and sum(1 for x in range(w) if (y, x) in S) != i["row"][y]:
            return False
    for x in range(w):
        if i["col"][x] >= 0 and sum(1 for y in range(h) if (y, x) in S) != i["col"][x]:
            return False
    for rm in tup(i["rooms"]):
        rs = set(rm)
        if r == "level-shared-in-tank":
            wet = [c for c in rm if c in S]
            if wet:
                L = min(y for y, x in wet)
                if any((c[0] >= L) != (c in S) for c in rm):
                    return False
        else:
            for y, x in rm:
                if (y, x + 1) in rs and ((y, x) in S) != ((y, x + 1) in S):
                    return False
                if (y + 1, x) in rs and (y, x) in S and (y + 1, x) not in S:
                    return False
    return True


def _aq_solve(i):
    from cspuz.puzzle import aquarium

    is_sat, arr = aquarium.solve_aquarium(i["h"], i["w"], tup(i["rooms"]), i["row"], i["col"])
    return is_sat, grid_got(i["h"], i["w"], arr)


shading("aquarium", _aq_gen, _aq_valid, _aq_solve, readings=("level-local", "level-shared-in-tank"))


# ======================================================================================= star battle
def balanced_ids(rng, n, nblocks, reserved=()):
    """Partition of the n x n board minus `reserved` into nblocks connected blocks of nearly equal size (always grow the
    smallest block that can still grow), as in published star-battle layouts.  -> dict cell -> block id, or None."""
    free = [c for c in allc(n, n) if c not in reserved]
    seeds = rng.sample(free, nblocks)
    owner = {c: k for k, c in enumerate(seeds)}
    size = [1] * nblocks
    while len(owner) < len(free):
        order = sorted(range(nblocks), key=lambda k: (size[k], rng.random()))
        grown = False
        for k in order:
            cand = [(y + dy, x + dx) for (y, x), o in owner.items() if o == k for dy, dx in N4
                    if 0 <= y + dy < n and 0 <= x + dx < n and (y + dy, x + dx) not in owner and (y + dy, x + dx) not in reserved]
            if cand:
                owner[rng.choice(cand)] = k
                size[k] += 1
                grown = True
                break
        if not grown:
            return None
    return owner


def _sb_gen(rng, big):
    r = rng.random()
    if r < 0.14:
        n = rng.choice([8, 9, 9, 10] if big else [9])  # k = 2 has solutions only from n = 8/9 on
        k = 2
        for _ in range(20):
            if rng.random() < 0.5:
                # a two-cell block in some row (its two stars would have to sit side by side: unsolvable by the rules)
                y0 = rng.choice([0, n - 1, n - 1, rng.randrange(n)])
                x0 = rng.randrange(n - 1)
                dom = ((y0, x0), (y0, x0 + 1))
                owner = balanced_ids(rng, n, n - 1, reserved=dom)
                if owner is None:
                    continue
                for c in dom:
                    owner[c] = n - 1
            else:
                owner = balanced_ids(rng, n, n)
                if owner is None:
                    continue
            return {"n": n, "g": [[owner[(y, x)] for x in range(n)] for y in range(n)], "k": k}
    n = rng.choice([1, 2, 3, 4, 5, 6])
    k = 1 if n < 5 or rng.random() < 0.7 else 2
    rooms = None
    while rooms is None or len(rooms) != n:
        rooms = randrooms(rng, n, n, n)
    g = [[0] * n for _ in range(n)]
    for kk, rm in enumerate(rooms):
        for y, x in rm:
            g[y][x] = kk
    return {"n": n, "g": g, "k": k}


def _sb_truth(i):
    n, g, k = i["n"], i["g"], i["k"]
    nblocks = max(v for row in g for v in row) + 1
    sols = []
    col = [0] * n
    blk = [0] * nblocks
    rows = []
    import itertools as _it

    options = [c for c in _it.combinations(range(n), k) if all(b - a > 1 for a, b in zip(c, c[1:]))]

    def rec(y):
        if len(sols) > 3000:
            return
        if y == n:
            if all(c == k for c in col) and all(b == k for b in blk):
                S = {(yy, x) for yy, cs in enumerate(rows) for x in cs}
                sols.append(set_sol(n, n, S))
            return
        prev = rows[-1] if rows else ()
        for cs in options:
            if any(abs(x - px) <= 1 for x in cs for px in prev):
                continue
            if any(col[x] >= k for x in cs):
                continue
            cnt = {}
            for x in cs:
                cnt[g[y][x]] = cnt.get(g[y][x], 0) + 1
            if any(blk[b] + c > k for b, c in cnt.items()):
                continue
            # remaining rows must be able to fill every column
            for x in cs:
                col[x] += 1
                blk[g[y][x]] += 1
            if all(col[x] + (n - 1 - y) >= k for x in range(n)):
                rows.append(cs)
                rec(y + 1)
                rows.pop()
            for x in cs:
                col[x] -= 1
                blk[g[y][x]] -= 1

    rec(0)
    if len(sols) > 3000:
        return None
    return {"std": sols}


def _sb_solve(i):
    from cspuz.puzzle import star_battle

    is_sat, arr = star_battle.solve_star_battle(i["n"], i["g"], i["k"])
    return is_sat, grid_got(i["n"], i["n"], arr)


def _sb_check(i, got):
    n, g, k = i["n"], i["g"], i["k"]
    if any(v is not True and v is not False for v in got.values()):
        return False
    S = {tuple(map(int, kk.split(","))) for kk, v in got.items() if v}
    if any(sum(1 for c in S if c[0] == t) != k or sum(1 for c in S if c[1] == t) != k for t in range(n)):
        return False
    nblocks = max(v for row in g for v in row) + 1
    if any(sum(1 for (y, x) in S if g[y][x] == b) != k for b in range(nblocks)):
        return False
    return not any((y + dy, x + dx) in S for y, x in S for dy in (-1, 0, 1) for dx in (-1, 0, 1) if (dy, dx) != (0, 0))


register("star_battle", _sb_gen, _sb_truth, _sb_solve, _sb_check)


# ======================================================================================= loop puzzles on cell centres
def looppuz(name, gen, valid, solve, shapes=None):
    def truth(i):
        h, w = i["h"], i["w"]
        return {"std": [frame_dict(h, w, c) for c in all_cycles(h, w) if valid(i, c)]}

    def check_model(i, got):
        c = cycle_of(i["h"], i["w"], got)
        return c is not None and bool(valid(i, c))
    register(name, gen, truth, solve, check_model)


def _masyu_gen(rng, big):
    h, w = pick_shape(rng, LSHAPES, 16 if big else 12)
    return {"h": h, "w": w, "p": [[rng.choice([0, 0, 0, 0, 1, 2]) for _ in range(w)] for _ in range(h)]}


def _masyu_valid(i, c):
    h, w, p = i["h"], i["w"], i["p"]
    for y, x in allc(h, w):
        if p[y][x] == 0:
            continue
        a = arms(c, (y, x))
        if len(a) != 2:
            return False
        if p[y][x] == 1:
            if not straight(a):
                return False
            if not any(not straight(arms(c, (y + d[0], x + d[1]))) for d in a):
                return False
        else:
            if straight(a):
                return False
            if not all(straight(arms(c, (y + d[0], x + d[1]))) for d in a):
                return False
    return True


def _masyu_solve(i):
    from cspuz.puzzle import masyu

    is_sat, gf = masyu.solve_masyu(i["h"], i["w"], i["p"])
    return is_sat, frame_got(i["h"], i["w"], gf)


looppuz("masyu", _masyu_gen, _masyu_valid, _masyu_solve)


def _ger_gen(rng, big):
    h, w = pick_shape(rng, LSHAPES, 16 if big else 12)
    return {"h": h, "w": w, "p": [[rng.choice([0, 0, 0, 0, 1, 2, 3]) for _ in range(w)] for _ in range(h)]}


def _ger_valid(i, c):
    h, w, p = i["h"], i["w"], i["p"]
    for y, x in allc(h, w):
        if p[y][x] >= 1:
            a = arms(c, (y, x))
            if len(a) != 2:
                return False
            if straight(a):
                if runlen(c, (y, x), a[0]) + runlen(c, (y, x), a[1]) != p[y][x]:
                    return False
            elif runlen(c, (y, x), a[0]) != p[y][x] or runlen(c, (y, x), a[1]) != p[y][x]:
                return False
    return True


def _ger_solve(i):
    from cspuz.puzzle import geradeweg

    is_sat, gf = geradeweg.solve_geradeweg(i["h"], i["w"], i["p"])
    return is_sat, frame_got(i["h"], i["w"], gf)


looppuz("geradeweg", _ger_gen, _ger_valid, _ger_solve)


def _sl_gen(rng, big):
    h, w = pick_shape(rng, LSHAPES, 16 if big else 12)
    b = [[rng.choice([0, 0, 0, 1]) for _ in range(w)] for _ in range(h)]
    piv = [rng.randrange(h), rng.randrange(w)]
    npass = sum(1 for y, x in allc(h, w) if [y, x] != piv and b[y][x] == 0)
    b[piv[0]][piv[1]] = 1 - npass % 2
    return {"h": h, "w": w, "b": b, "piv": piv}


def _sl_valid(i, c):
    passed = {q for e in c for q in e}
    return all(((y, x) in passed) == (i["b"][y][x] == 0) for y, x in allc(i["h"], i["w"]))


def _sl_solve(i):
    from cspuz.puzzle import simpleloop

    r = simpleloop.solve_simpleloop(i["h"], i["w"], i["b"], tuple(i["piv"]))
    return r[0], frame_got(i["h"], i["w"], r[1])


looppuz("simpleloop", _sl_gen, _sl_valid, _sl_solve)


def _cw_gen(rng, big):
    h, w = pick_shape(rng, [(2, 2), (2, 3), (3, 2), (3, 3), (3, 4), (4, 3), (4, 4), (2, 5)], 16 if big else 12)
    ar = [[".."] * w for _ in range(h)]
    ins = [[None] * w for _ in range(h)]
    for _ in range(rng.choice([0, 1, 1, 2])):
        y, x = rng.randrange(h), rng.randrange(w)
        ar[y][x] = rng.choice("^v<>") + str(rng.choice([0, 1, 1, 2])) if rng.random() < 0.8 else "??"
        ins[y][x] = rng.choice([True, False, None])
    return {"h": h, "w": w, "ar": ar, "ins": ins}


def _inside(c, h, w, p):
    y, x = p
    if y + 1 < h:
        return sum(1 for x2 in range(0, x) if edge(c, (y, x2), (y + 1, x2))) % 2 == 1
    return sum(1 for x2 in range(0, x) if edge(c, (y - 1, x2), (y, x2))) % 2 == 1


def _cw_valid(i, c):
    h, w, ar, ins = i["h"], i["w"], i["ar"], i["ins"]
    passed = {q for e in c for q in e}
    for y, x in allc(h, w):
        a = ar[y][x]
        if a == "..":
            continue
        if (y, x) in passed:
            return False
        if a[0] == "^":
            k = sum(1 for y2 in range(0, y) if edge(c, (y2, x), (y2 + 1, x)))
        elif a[0] == "v":
            k = sum(1 for y2 in range(y, h - 1) if edge(c, (y2, x), (y2 + 1, x)))
        elif a[0] == "<":
            k = sum(1 for x2 in range(0, x) if edge(c, (y, x2), (y, x2 + 1)))
        elif a[0] == ">":
            k = sum(1 for x2 in range(x, w - 1) if edge(c, (y, x2), (y, x2 + 1)))
        else:
            k = None
        if k is not None and k != int(a[1:]):
            return False
        if ins[y][x] is not None and _inside(c, h, w, (y, x)) != ins[y][x]:
            return False
    return True


def _cw_solve(i):
    from cspuz.puzzle import castle_wall

    r = castle_wall.solve_castle_wall(i["h"], i["w"], i["ar"], i["ins"])
    return r[0], frame_got(i["h"], i["w"], r[1])


looppuz("castle_wall", _cw_gen, _cw_valid, _cw_solve)


# ======================================================================================= view
def _view_gen(rng, big):
    h, w = pick_shape(rng, SHAPES, 12 if big else 9)
    return {"h": h, "w": w, "p": [[rng.choice([-1, -1, -1, 0, 1, 2]) for _ in range(w)] for _ in range(h)]}


def _view_truth(i):
    h, w, p = i["h"], i["w"], i["p"]
    sols = []
    for M in cellsets(h, w):
        if not conn(M):
            continue
        nums = {}
        for y, x in allc(h, w):
            if (y, x) in M:
                k = 0
                for dy, dx in N4:
                    q = (y + dy, x + dx)
                    while 0 <= q[0] < h and 0 <= q[1] < w and q not in M:
                        k += 1
                        q = (q[0] + dy, q[1] + dx)
                nums[(y, x)] = k
            else:
                nums[(y, x)] = 0
        ok = True
        for y, x in M:
            for d in ((1, 0), (0, 1)):
                q = (y + d[0], x + d[1])
                if q in M and nums[q] == nums[(y, x)]:
                    ok = False
        for y, x in allc(h, w):
            if p[y][x] >= 0 and ((y, x) not in M or nums[(y, x)] != p[y][x]):
                ok = False
        if ok:
            d = {}
            for c in allc(h, w):
                d[f"m{c[0]},{c[1]}"] = c in M
                d[f"n{c[0]},{c[1]}"] = nums[c]
            sols.append(d)
    return {"std": sols}


def _view_solve(i):
    from cspuz.puzzle import view

    is_sat, nn, hn = view.solve_view(i["h"], i["w"], i["p"])
    got = {}
    for c in allc(i["h"], i["w"]):
        got[f"m{c[0]},{c[1]}"] = hn[c].sol
        got[f"n{c[0]},{c[1]}"] = nn[c].sol
    return is_sat, got


def _view_check(i, got):
    h, w, p = i["h"], i["w"], i["p"]
    M = set()
    for c in allc(h, w):
        m = got.get(f"m{c[0]},{c[1]}")
        if m is not True and m is not False:
            return False
        if m:
            M.add(c)
    if not conn(M):
        return False
    for y, x in allc(h, w):
        k = 0
        if (y, x) in M:
            for dy, dx in N4:
                q = (y + dy, x + dx)
                while 0 <= q[0] < h and 0 <= q[1] < w and q not in M:
                    k += 1
                    q = (q[0] + dy, q[1] + dx)
        n = got.get(f"n{y},{x}")
        if type(n) is not int or n != k:
            return False
        if p[y][x] >= 0 and ((y, x) not in M or p[y][x] != k):
            return False
    return all(not (q in M and got[f"n{q[0]},{q[1]}"] == got[f"n{c[0]},{c[1]}"]) for c in M for q in ((c[0] + 1, c[1]), (c[0], c[1] + 1)))


register("view", _view_gen, _view_truth, _view_solve, _view_check)


# ======================================================================================= building
def _vis(seq):
    m = k = 0
    for v in seq:
        if v > m:
            m = v
            k += 1
    return k


_LATIN = {}


def latin(nn):
    if nn in _LATIN:
        return _LATIN[nn]
    rows = list(itertools.permutations(range(1, nn + 1)))
    out = []

    def rec(g):
        if len(g) == nn:
            out.append([list(r) for r in g])
            return
        for r in rows:
            if all(r[k] != q[k] for q in g for k in range(nn)):
                rec(g + [r])
    rec([])
    _LATIN[nn] = out
    return out


def _bld_gen(rng, big):
    nn = rng.choice([1, 2, 3, 3, 4])
    cl = [[rng.choice([0, 0, 0, 1, 2, 3, nn]) if rng.random() < 0.5 else 0 for _ in range(nn)] for _ in range(4)]
    return {"n": nn, "cl": cl}


def _bld_truth(i):
    nn = i["n"]
    up, dw, lf, rg = i["cl"]
    sols = []
    for g in latin(nn):
        ok = True
        for k in range(nn):
            col = [g[y][k] for y in range(nn)]
            row = g[k]
            if (up[k] >= 1 and _vis(col) != up[k]) or (dw[k] >= 1 and _vis(col[::-1]) != dw[k]) or \
               (lf[k] >= 1 and _vis(row) != lf[k]) or (rg[k] >= 1 and _vis(row[::-1]) != rg[k]):
                ok = False
        if ok:
            sols.append({f"{y},{x}": g[y][x] for y in range(nn) for x in range(nn)})
    return {"std": sols}


def _bld_solve(i):
    from cspuz.puzzle import building

    is_sat, ans = building.solve_building(i["n"], *i["cl"])
    return is_sat, grid_got(i["n"], i["n"], ans)


def _bld_check(i, got):
    nn = i["n"]
    up, dw, lf, rg = i["cl"]
    g = [[got.get(f"{y},{x}") for x in range(nn)] for y in range(nn)]
    if any(type(v) is not int for r in g for v in r):
        return False
    full = set(range(1, nn + 1))
    if any(set(r) != full for r in g) or any({g[y][x] for y in range(nn)} != full for x in range(nn)):
        return False
    for k in range(nn):
        col = [g[y][k] for y in range(nn)]
        row = g[k]
        if (up[k] >= 1 and _vis(col) != up[k]) or (dw[k] >= 1 and _vis(col[::-1]) != dw[k]) or \
           (lf[k] >= 1 and _vis(row) != lf[k]) or (rg[k] >= 1 and _vis(row[::-1]) != rg[k]):
            return False
    return True


register("building", _bld_gen, _bld_truth, _bld_solve, _bld_check)


# ======================================================================================= doppelblock
_DB = {}


def _db_grids(nn):
    if nn in _DB:
        return _DB[nn]
    vals = [0, 0] + list(range(1, nn - 1))
    rows = sorted(set(itertools.permutations(vals)))
    out = []

    def rec(g):
        if len(g) == nn:
            out.append(g)
            return
        for r in rows:
            ok = True
            for k in range(nn):
                col = [q[k] for q in g] + [r[k]]
                if col.count(0) > 2 or any(col.count(v) > 1 for v in range(1, nn - 1)):
                    ok = False
            if ok:
                rec(g + [r])
    rec([])
    out = [g for g in out if all([g[y][x] for y in range(nn)].count(0) == 2 for x in range(nn))]
    _DB[nn] = out
    return out


def _between(seq):
    k = [t for t, v in enumerate(seq) if v == 0]
    return sum(seq[k[0] + 1:k[1]])


def _db_gen(rng, big):
    nn = rng.choice([2, 3, 4, 4] + ([5] if big else []))
    top = sum(range(1, nn - 1))  # the largest sum: both black cells at the ends of the line
    return {"n": nn, "row": [rng.choice([-1, -1, 0, 1, 2, 3, top]) for _ in range(nn)], "col": [rng.choice([-1, -1, 0, 1, 2, 3, top]) for _ in range(nn)]}


def _db_truth(i):
    nn = i["n"]
    sols = []
    for g in _db_grids(nn):
        if all(i["row"][k] < 0 or _between(list(g[k])) == i["row"][k] for k in range(nn)) and \
           all(i["col"][k] < 0 or _between([g[y][k] for y in range(nn)]) == i["col"][k] for k in range(nn)):
            sols.append({f"{y},{x}": g[y][x] for y in range(nn) for x in range(nn)})
    return {"std": sols}


def _db_solve(i):
    from cspuz.puzzle import doppelblock

    is_sat, ans = doppelblock.solve_doppelblock(i["n"], i["row"], i["col"])
    return is_sat, grid_got(i["n"], i["n"], ans)


def _db_check(i, got):
    nn = i["n"]
    g = [[got.get(f"{y},{x}") for x in range(nn)] for y in range(nn)]
    if any(type(v) is not int for r in g for v in r):
        return False
    want = sorted([0, 0] + list(range(1, nn - 1)))
    if any(sorted(r) != want for r in g) or any(sorted(g[y][x] for y in range(nn)) != want for x in range(nn)):
        return False
    return all(i["row"][k] < 0 or _between(list(g[k])) == i["row"][k] for k in range(nn)) and \
        all(i["col"][k] < 0 or _between([g[y][k] for y in range(nn)]) == i["col"][k] for k in range(nn))


register("doppelblock", _db_gen, _db_truth, _db_solve, _db_check)


# ======================================================================================= sudoku
def _sudoku_solutions(n, p, cap):
    size = n * n
    g = [list(r) for r in p]
    out = []

    def ok(y, x, v):
        for k in range(size):
            if g[y][k] == v or g[k][x] == v:
                return False
        by, bx = y // n * n, x // n * n
        return not any(g[by + a][bx + b] == v for a in range(n) for b in range(n))

    # givens must be consistent among themselves
    for y in range(size):
        for x in range(size):
            v = g[y][x]
            if v >= 1:
                g[y][x] = 0
                if not ok(y, x, v):
                    return []
                g[y][x] = v
    empties = [(y, x) for y in range(size) for x in range(size) if g[y][x] < 1]

    def rec(k):
        if len(out) > cap:
            return
        if k == len(empties):
            out.append({f"{y},{x}": g[y][x] for y in range(size) for x in range(size)})
            return
        y, x = empties[k]
        for v in range(1, size + 1):
            if ok(y, x, v):
                g[y][x] = v
                rec(k + 1)
                g[y][x] = 0
    rec(0)
    return out


def _sudoku_gen(rng, big):
    n = 2 if (not big or rng.random() < 0.7) else 3
    size = n * n
    full = None
    base = [[0] * size for _ in range(size)]
    # a random full grid: shuffle a canonical one
    canon = [[(n * (y % n) + y // n + x) % size + 1 for x in range(size)] for y in range(size)]
    perm = list(range(1, size + 1))
    rng.shuffle(perm)
    full = [[perm[v - 1] for v in row] for row in canon]
    dens = rng.choice([0.0, 0.2, 0.4, 0.6]) if n == 2 else rng.choice([0.55, 0.7])
    p = [[full[y][x] if rng.random() < dens else 0 for x in range(size)] for y in range(size)]
    if rng.random() < 0.25:
        y, x = rng.randrange(size), rng.randrange(size)
        p[y][x] = rng.randint(1, size)  # possibly contradictory clue
    del base
    return {"n": n, "p": p}


def _sudoku_truth(i):
    sols = _sudoku_solutions(i["n"], i["p"], 400)
    if len(sols) > 400:
        return None  # too many solutions to enumerate: not judged
    return {"std": sols}


def _sudoku_solve(i):
    from cspuz.puzzle import sudoku

    is_sat, ans = sudoku.solve_sudoku(i["p"], n=i["n"])
    s = i["n"] ** 2
    return is_sat, grid_got(s, s, ans)


def _sudoku_check(i, got):
    n = i["n"]
    s_ = n * n
    g = [[got.get(f"{y},{x}") for x in range(s_)] for y in range(s_)]
    if any(type(v) is not int or not 1 <= v <= s_ for r in g for v in r):
        return False
    full = set(range(1, s_ + 1))
    if any(set(r) != full for r in g) or any({g[y][x] for y in range(s_)} != full for x in range(s_)):
        return False
    if any({g[by * n + dy][bx * n + dx] for dy in range(n) for dx in range(n)} != full for by in range(n) for bx in range(n)):
        return False
    return all(i["p"][y][x] in (0, g[y][x]) for y in range(s_) for x in range(s_))


register("sudoku", _sudoku_gen, _sudoku_truth, _sudoku_solve, _sudoku_check)


# ======================================================================================= partitions (fillomino, compass, fivecells)
def connected_partitions(cells):
    """All partitions of a set of cells into orthogonally connected blocks (as lists of frozensets)."""
    cells = sorted(cells)
    cellset = set(cells)

    def blocks_containing(first, avail):
        # all connected subsets of avail containing `first`
        out = set()

        def grow(cur, frontier_done):
            out.add(frozenset(cur))
            cand = sorted({(y + dy, x + dx) for y, x in cur for dy, dx in N4} & avail - cur - frontier_done)
            done = set(frontier_done)
            for c in cand:
                grow(cur | {c}, done)
                done = done | {c}
        grow(frozenset([first]), frozenset())
        return out

    def rec(avail):
        if not avail:
            yield []
            return
        first = min(avail)
        for b in blocks_containing(first, avail):
            for rest in rec(avail - b):
                yield [b] + rest
    yield from rec(frozenset(cellset))


def _fil_gen(rng, big):
    h, w = pick_shape(rng, [(1, 1), (1, 3), (2, 2), (2, 3), (3, 2), (2, 4), (1, 5), (3, 3)], 9 if big else 8)
    inst = {"h": h, "w": w, "p": [[rng.choice([0, 0, 0, 1, 2, 3, 4]) for _ in range(w)] for _ in range(h)]}
    if rng.random() < 0.25:
        inst["checkered"] = True  # the 'checkered fillomino' variant: the blocks can be 2-coloured, edge-adjacent blocks differently
    return inst


def _two_colourable(part):
    bid = {c: k for k, b in enumerate(part) for c in b}
    adj = {k: set() for k in range(len(part))}
    for (y, x), k in bid.items():
        for d in ((1, 0), (0, 1)):
            q = (y + d[0], x + d[1])
            if q in bid and bid[q] != k:
                adj[k].add(bid[q])
                adj[bid[q]].add(k)
    col = {}
    for s0 in adj:
        if s0 in col:
            continue
        col[s0] = 0
        st = [s0]
        while st:
            u = st.pop()
            for v in adj[u]:
                if v not in col:
                    col[v] = 1 - col[u]
                    st.append(v)
                elif col[v] == col[u]:
                    return False
    return True


def _fil_truth(i):
    h, w, p = i["h"], i["w"], i["p"]
    sols = []
    for part in connected_partitions(allc(h, w)):
        size = {c: len(b) for b in part for c in b}
        bid = {c: k for k, b in enumerate(part) for c in b}
        ok = True
        for y, x in allc(h, w):
            if p[y][x] >= 1 and size[(y, x)] != p[y][x]:
                ok = False
            for d in ((1, 0), (0, 1)):
                q = (y + d[0], x + d[1])
                if q in bid and bid[q] != bid[(y, x)] and size[q] == size[(y, x)]:
                    ok = False
        if ok and i.get("checkered") and not _two_colourable(part):
            ok = False
        if ok:
            sols.append({f"{y},{x}": size[(y, x)] for y, x in allc(h, w)})
    return {"std": sols}


def _fil_solve(i):
    from cspuz.puzzle import fillomino

    if i.get("checkered"):
        is_sat, arr = fillomino.solve_fillomino(i["h"], i["w"], i["p"], checkered=True)
    else:
        is_sat, arr = fillomino.solve_fillomino(i["h"], i["w"], i["p"])
    return is_sat, grid_got(i["h"], i["w"], arr)


def _fil_check(i, got):
    h, w, p = i["h"], i["w"], i["p"]
    g = {c: got.get(f"{c[0]},{c[1]}") for c in allc(h, w)}
    if any(type(v) is not int or v < 1 for v in g.values()):
        return False
    # blocks = maximal connected areas of equal numbers (equal-sized blocks may not touch, so this IS the partition)
    seen = set()
    part = []
    for c in allc(h, w):
        if c in seen:
            continue
        comp, st = {c}, [c]
        while st:
            y, x = st.pop()
            for dy, dx in N4:
                q = (y + dy, x + dx)
                if q in g and q not in comp and g[q] == g[c]:
                    comp.add(q)
                    st.append(q)
        seen |= comp
        if len(comp) != g[c]:
            return False
        part.append(frozenset(comp))
    if any(p[y][x] >= 1 and g[(y, x)] != p[y][x] for y, x in allc(h, w)):
        return False
    return (not i.get("checkered")) or _two_colourable(part)


register("fillomino", _fil_gen, _fil_truth, _fil_solve, _fil_check)


def _cmp_gen(rng, big):
    h, w = pick_shape(rng, [(1, 2), (1, 3), (2, 2), (2, 3), (3, 2), (2, 4), (3, 3)], 9 if big else 8)
    k = rng.randint(1, min(3, h * w))
    cells = rng.sample(allc(h, w), k)
    prob = []
    for y, x in cells:
        prob.append([y, x] + [rng.choice([-1, -1, 0, 1, 2, 3, h * w - 1]) for _ in range(4)])
    return {"h": h, "w": w, "prob": prob}


def _cmp_truth(i):
    h, w, prob = i["h"], i["w"], i["prob"]
    k = len(prob)
    cells = allc(h, w)
    sols = []
    for lab in itertools.product(range(k), repeat=h * w):
        L = dict(zip(cells, lab))
        ok = True
        for t, (y, x, up, lf, dw, rg) in enumerate(prob):
            if L[(y, x)] != t:
                ok = False
                break
            reg = [c for c in cells if L[c] == t]
            if not conn(reg):
                ok = False
                break
            if (up >= 0 and sum(1 for c in reg if c[0] < y) != up) or (dw >= 0 and sum(1 for c in reg if c[0] > y) != dw) or \
               (lf >= 0 and sum(1 for c in reg if c[1] < x) != lf) or (rg >= 0 and sum(1 for c in reg if c[1] > x) != rg):
                ok = False
                break
        if ok:
            sols.append({f"{y},{x}": L[(y, x)] for y, x in cells})
    return {"std": sols}


def _cmp_solve(i):
    from cspuz.puzzle import compass

    is_sat, arr = compass.solve_compass(i["h"], i["w"], [tuple(c) for c in i["prob"]])
    return is_sat, grid_got(i["h"], i["w"], arr)


def _cmp_check(i, got):
    h, w, prob = i["h"], i["w"], i["prob"]
    cells = allc(h, w)
    L = {c: got.get(f"{c[0]},{c[1]}") for c in cells}
    k = len(prob)
    if any(type(v) is not int or not 0 <= v < k for v in L.values()):
        return False
    for t, (y, x, up, lf, dw, rg) in enumerate(prob):
        if L[(y, x)] != t:
            return False
        reg = [c for c in cells if L[c] == t]
        if not conn(reg):
            return False
        if (up >= 0 and sum(1 for c in reg if c[0] < y) != up) or (dw >= 0 and sum(1 for c in reg if c[0] > y) != dw) or \
           (lf >= 0 and sum(1 for c in reg if c[1] < x) != lf) or (rg >= 0 and sum(1 for c in reg if c[1] > x) != rg):
            return False
    return True


register("compass", _cmp_gen, _cmp_truth, _cmp_solve, _cmp_check)


def _five_gen(rng, big):
    for _ in range(200):
        h, w = rng.choice([(1, 5), (5, 1), (2, 5), (5, 2), (3, 4), (4, 3), (2, 3), (3, 3), (2, 6)] + ([(3, 5), (5, 3), (4, 4)] if big else []))
        n = h * w
        target = rng.choice([t for t in (5, 10, 15) if t <= n and (big or t <= 10)] or [n])
        p = [[-1] * w for _ in range(h)]
        cells = allc(h, w)
        holes = n - target
        if holes < 0:
            continue
        for y, x in rng.sample(cells, holes):
            p[y][x] = -2
        if rng.random() < 0.15 and holes == 0:
            p[rng.randrange(h)][rng.randrange(w)] = -2  # cell count not a multiple of 5: unsolvable
        near = [(y, x) for y, x in cells if p[y][x] == -1 and any(0 <= y + dy < h and 0 <= x + dx < w and p[y + dy][x + dx] == -2 for dy, dx in N4)]
        for _ in range(rng.choice([0, 1, 2, 3])):
            # half of the clues sit next to a hole (each side of a hole is a border the clue has to count)
            y, x = rng.choice(near) if near and rng.random() < 0.5 else (rng.randrange(h), rng.randrange(w))
            if p[y][x] == -1:
                p[y][x] = rng.choice([0, 1, 2, 3, 4])
        return {"h": h, "w": w, "p": p}


def _five_edges(i):
    h, w, p = i["h"], i["w"], i["p"]
    edges = []
    for y in range(h):
        for x in range(w):
            if p[y][x] >= -1:
                if y < h - 1 and p[y + 1][x] >= -1:
                    edges.append(((y, x), (y + 1, x)))
                if x < w - 1 and p[y][x + 1] >= -1:
                    edges.append(((y, x), (y, x + 1)))
    return edges


def _five_truth(i):
    h, w, p = i["h"], i["w"], i["p"]
    cells = [c for c in allc(h, w) if p[c[0]][c[1]] >= -1]
    edges = _five_edges(i)
    sols = []
    if len(cells) % 5 == 0:
        for part in connected_partitions(cells):
            if any(len(b) != 5 for b in part):
                continue
            bid = {c: k for k, b in enumerate(part) for c in b}
            ok = True
            for y, x in cells:
                if p[y][x] >= 0:
                    sides = 0
                    for dy, dx in N4:
                        q = (y + dy, x + dx)
                        if q not in bid or bid[q] != bid[(y, x)]:
                            sides += 1
                    if sides != p[y][x]:
                        ok = False
            if ok:
                sols.append({f"e{k}": bid[a] != bid[b] for k, (a, b) in enumerate(edges)})
    return {"std": sols}


def _five_solve(i):
    from cspuz.puzzle import fivecells

    is_sat, isb = fivecells.solve_fivecells(i["h"], i["w"], i["p"])
    return is_sat, {f"e{k}": v.sol for k, v in enumerate(isb)}


def _five_check(i, got):
    h, w, p = i["h"], i["w"], i["p"]
    cells = [c for c in allc(h, w) if p[c[0]][c[1]] >= -1]
    edges = _five_edges(i)
    if any(got.get(f"e{k}") not in (True, False) for k in range(len(edges))):
        return False
    par = {c: c for c in cells}

    def find(a):
        while par[a] != a:
            par[a] = par[par[a]]
            a = par[a]
        return a
    for k, (a, b) in enumerate(edges):
        if not got[f"e{k}"]:
            par[find(a)] = find(b)
    size = {}
    for c in cells:
        size[find(c)] = size.get(find(c), 0) + 1
    if any(v != 5 for v in size.values()):
        return False
    # a border may not run inside one block
    if any(got[f"e{k}"] and find(a) == find(b) for k, (a, b) in enumerate(edges)):
        return False
    for y, x in cells:
        if p[y][x] >= 0:
            sides = sum(1 for dy, dx in N4 if (y + dy, x + dx) not in par or find((y + dy, x + dx)) != find((y, x)))
            if sides != p[y][x]:
                return False
    return True


register("fivecells", _five_gen, _five_truth, _five_solve, _five_check)


# ======================================================================================= shakashaka
# triangle k blackens two of the four quarter-triangles (N, E, S, W around the cell centre) of its cell:
#  1: top-left half = N+W   2: bottom-left = W+S   3: bottom-right = S+E   4: top-right = N+E     (picture in shakashaka.py)
_Q = {0: set(), 1: {"N", "W"}, 2: {"W", "S"}, 3: {"S", "E"}, 4: {"N", "E"}}
# quarter triangle vertices in doubled coordinates relative to the cell's top-left corner (Y, X) = (2y, 2x): centre (1, 1)
_QV = {"N": ((0, 0), (0, 2), (1, 1)), "E": ((0, 2), (2, 2), (1, 1)), "S": ((2, 0), (2, 2), (1, 1)), "W": ((0, 0), (2, 0), (1, 1))}


def _shaka_gen(rng, big):
    for _ in range(100):
        h, w = pick_shape(rng, [(1, 1), (1, 2), (2, 2), (2, 3), (3, 2), (3, 3), (1, 4), (2, 4)], 9)
        p = [[None] * w for _ in range(h)]
        for y, x in allc(h, w):
            if rng.random() < 0.3:
                p[y][x] = rng.choice([-1, -1, 0, 1, 2, 3, 4])  # 4 = every side of the black cell carries a triangle
        whites = sum(1 for y, x in allc(h, w) if p[y][x] is None)
        if whites <= (8 if big else 6):
            return {"h": h, "w": w, "p": p}
    return {"h": 1, "w": 1, "p": [[None]]}


def _shaka_ok(i, assign):
    h, w, p = i["h"], i["w"], i["p"]
    # number clues
    for y, x in allc(h, w):
        if p[y][x] is not None and p[y][x] >= 0:
            k = sum(1 for dy, dx in N4 if assign.get((y + dy, x + dx), 0) != 0)
            if k != p[y][x]:
                return False
    # white quarter triangles
    white = set()
    for y, x in allc(h, w):
        if p[y][x] is None:
            for q in "NESW":
                if q not in _Q[assign[(y, x)]]:
                    white.add((y, x, q))
    seen = set()
    for start in white:
        if start in seen:
            continue
        comp = {start}
        st = [start]
        while st:
            y, x, q = st.pop()
            nbs = [(y, x, {"N": "E", "E": "S", "S": "W", "W": "N"}[q]), (y, x, {"N": "W", "W": "S", "S": "E", "E": "N"}[q]),
                   {"N": (y - 1, x, "S"), "S": (y + 1, x, "N"), "W": (y, x - 1, "E"), "E": (y, x + 1, "W")}[q]]
            for nb in nbs:
                if nb in white and nb not in comp:
                    comp.add(nb)
                    st.append(nb)
        seen |= comp
        pts = [(2 * y + vy, 2 * x + vx) for y, x, q in comp for vy, vx in _QV[q]]
        area4 = len(comp)  # in units of 1/4 cell = 1 unit^2 in doubled coordinates (each quarter has area 1 there)
        ys = [a for a, b in pts]
        xs = [b for a, b in pts]
        upright = (max(ys) - min(ys)) * (max(xs) - min(xs)) == area4
        us = [a + b for a, b in pts]
        vs = [a - b for a, b in pts]
        rotated = (max(us) - min(us)) * (max(vs) - min(vs)) == 2 * area4
        if not (upright or rotated):
            return False
    return True


def _shaka_truth(i):
    h, w, p = i["h"], i["w"], i["p"]
    whites = [c for c in allc(h, w) if p[c[0]][c[1]] is None]
    sols = []
    for vals in itertools.product(range(5), repeat=len(whites)):
        assign = dict(zip(whites, vals))
        if _shaka_ok(i, assign):
            sols.append({f"{y},{x}": assign.get((y, x), 0) for y, x in allc(h, w)})
    return {"std": sols}


def _shaka_solve(i):
    from cspuz.puzzle import shakashaka

    is_sat, arr = shakashaka.solve_shakashaka(i["h"], i["w"], i["p"])
    return is_sat, grid_got(i["h"], i["w"], arr)


register("shakashaka", _shaka_gen, _shaka_truth, _shaka_solve)
