"""Planted-solution instances for C11 on boards too large to enumerate (5x5 .. 8x8, non-square).

plant_<puzzle>(rng) builds a rule-obeying answer grid first and derives the clues from it, so the instance is solvable by
construction and the planted grid is ONE rule-obeying grid.  Partial oracle (sound, never demands more than the property):
  * solve_<puzzle> must report a solution;
  * every cell it reports as decided must carry the planted grid's value (a decided cell is one on which ALL rule-obeying
    grids agree, the planted one included).
Each planted grid is re-verified by the definition-level rule checker of refs/rules.py before it is used."""
from . import rules as R
from .rules import N4, allc, conn, edge


def shape(rng, lo=4, hi=7):
    h, w = rng.randint(lo, hi), rng.randint(lo, hi)
    if rng.random() < 0.15:
        h = rng.choice([2, 3])
    return h, w


# ----------------------------------------------------------------------------- random simple cycle on an H x W point lattice
def random_cycle(rng, H, W, min_faces=2):
    """Boundary of a random simply connected set of unit faces: a simple cycle (frozenset of sorted point pairs)."""
    fh, fw = H - 1, W - 1
    if fh < 1 or fw < 1:
        return frozenset()

    def boundary(Rset):
        cnt = {}
        for (y, x) in Rset:
            for e in (((y, x), (y, x + 1)), ((y + 1, x), (y + 1, x + 1)), ((y, x), (y + 1, x)), ((y, x + 1), (y + 1, x + 1))):
                cnt[e] = cnt.get(e, 0) + 1
        return frozenset(e for e, c in cnt.items() if c == 1)

    def simple(es):
        deg = {}
        for a, b in es:
            deg[a] = deg.get(a, 0) + 1
            deg[b] = deg.get(b, 0) + 1
        if any(d != 2 for d in deg.values()):
            return False
        # connected
        adj = {}
        for a, b in es:
            adj.setdefault(a, []).append(b)
            adj.setdefault(b, []).append(a)
        st = [next(iter(adj))]
        seen = {st[0]}
        while st:
            p = st.pop()
            for q in adj[p]:
                if q not in seen:
                    seen.add(q)
                    st.append(q)
        return len(seen) == len(adj)

    Rset = {(rng.randrange(fh), rng.randrange(fw))}
    target = rng.randint(min_faces, max(min_faces, (fh * fw * 2) // 3))
    for _ in range(target * 6):
        if len(Rset) >= target:
            break
        y, x = rng.choice(sorted(Rset))
        dy, dx = rng.choice(N4)
        f = (y + dy, x + dx)
        if 0 <= f[0] < fh and 0 <= f[1] < fw and f not in Rset:
            cand = Rset | {f}
            if simple(boundary(cand)):
                Rset = cand
    return boundary(Rset)


def cycle_sol(h, w, c):
    return R.frame_dict(h, w, c)


def passed_of(c):
    return {q for e in c for q in e}


# ----------------------------------------------------------------------------- loop puzzles
def plant_slitherlink(rng):
    h, w = shape(rng)
    c = random_cycle(rng, h + 1, w + 1)
    p = [[-1] * w for _ in range(h)]
    for y, x in allc(h, w):
        if rng.random() < 0.55:
            sides = [((y, x), (y, x + 1)), ((y + 1, x), (y + 1, x + 1)), ((y, x), (y + 1, x)), ((y, x + 1), (y + 1, x + 1))]
            p[y][x] = sum(1 for e in sides if e in c)
    inst = {"h": h, "w": w, "p": p}
    sol = {}
    for y in range(h + 1):
        for x in range(w):
            sol[f"h{y},{x}"] = ((y, x), (y, x + 1)) in c
    for y in range(h):
        for x in range(w + 1):
            sol[f"v{y},{x}"] = ((y, x), (y + 1, x)) in c
    return inst, sol, True


def plant_masyu(rng):
    h, w = shape(rng)
    c = random_cycle(rng, h, w)
    p = [[0] * w for _ in range(h)]
    for y, x in allc(h, w):
        a = R.arms(c, (y, x))
        if len(a) != 2 or rng.random() < 0.4:
            continue
        if R.straight(a):
            if any(not R.straight(R.arms(c, (y + d[0], x + d[1]))) for d in a):
                p[y][x] = 1
        elif all(R.straight(R.arms(c, (y + d[0], x + d[1]))) for d in a):
            p[y][x] = 2
    inst = {"h": h, "w": w, "p": p}
    return inst, cycle_sol(h, w, c), R._masyu_valid(inst, c)


def plant_geradeweg(rng):
    h, w = shape(rng)
    c = random_cycle(rng, h, w)
    p = [[0] * w for _ in range(h)]
    for y, x in allc(h, w):
        a = R.arms(c, (y, x))
        if len(a) != 2 or rng.random() < 0.5:
            continue
        if R.straight(a):
            p[y][x] = R.runlen(c, (y, x), a[0]) + R.runlen(c, (y, x), a[1])
        elif R.runlen(c, (y, x), a[0]) == R.runlen(c, (y, x), a[1]):
            p[y][x] = R.runlen(c, (y, x), a[0])
    inst = {"h": h, "w": w, "p": p}
    return inst, cycle_sol(h, w, c), R._ger_valid(inst, c)


def plant_simpleloop(rng):
    h, w = shape(rng)
    c = random_cycle(rng, h, w)
    on = passed_of(c)
    b = [[0 if (y, x) in on else 1 for x in range(w)] for y in range(h)]
    piv = list(rng.choice(allc(h, w)))
    inst = {"h": h, "w": w, "b": b, "piv": piv}
    return inst, cycle_sol(h, w, c), R._sl_valid(inst, c) and len(on) > 0


def plant_yajilin(rng):
    h, w = shape(rng)
    c = random_cycle(rng, h, w)
    on = passed_of(c)
    black = set()
    clue = set()
    for y, x in rng.sample(allc(h, w), h * w):
        if (y, x) in on:
            continue
        if any((y + dy, x + dx) in black for dy, dx in N4) or rng.random() < 0.25:
            clue.add((y, x))
        else:
            black.add((y, x))
    p = [[".."] * w for _ in range(h)]
    for y, x in clue:
        if rng.random() < 0.2:
            p[y][x] = "??"
            continue
        d = rng.choice("^v<>")
        if d == "^":
            k = sum(1 for y2 in range(0, y) if (y2, x) in black)
        elif d == "v":
            k = sum(1 for y2 in range(y + 1, h) if (y2, x) in black)
        elif d == "<":
            k = sum(1 for x2 in range(0, x) if (y, x2) in black)
        else:
            k = sum(1 for x2 in range(x + 1, w) if (y, x2) in black)
        p[y][x] = d + str(k)
    inst = {"h": h, "w": w, "p": p}
    sol = cycle_sol(h, w, c)
    for y, x in allc(h, w):
        sol[f"b{y},{x}"] = (y, x) in black
    return inst, sol, True


def plant_castle_wall(rng):
    h, w = shape(rng)
    c = random_cycle(rng, h, w)
    on = passed_of(c)
    ar = [[".."] * w for _ in range(h)]
    ins = [[None] * w for _ in range(h)]
    off = [q for q in allc(h, w) if q not in on]
    for y, x in rng.sample(off, min(len(off), rng.randint(0, 5))):
        d = rng.choice("^v<>")
        if d == "^":
            k = sum(1 for y2 in range(0, y) if edge(c, (y2, x), (y2 + 1, x)))
        elif d == "v":
            k = sum(1 for y2 in range(y, h - 1) if edge(c, (y2, x), (y2 + 1, x)))
        elif d == "<":
            k = sum(1 for x2 in range(0, x) if edge(c, (y, x2), (y, x2 + 1)))
        else:
            k = sum(1 for x2 in range(x, w - 1) if edge(c, (y, x2), (y, x2 + 1)))
        ar[y][x] = (d + str(k)) if rng.random() < 0.8 else "??"
        ins[y][x] = rng.choice([None, R._inside(c, h, w, (y, x))])
    inst = {"h": h, "w": w, "ar": ar, "ins": ins}
    return inst, cycle_sol(h, w, c), R._cw_valid(inst, c)


# ----------------------------------------------------------------------------- shading puzzles
def grow_connected(rng, h, w, frac):
    cells = {(rng.randrange(h), rng.randrange(w))}
    target = max(1, int(h * w * frac))
    while len(cells) < target:
        y, x = rng.choice(sorted(cells))
        dy, dx = rng.choice(N4)
        q = (y + dy, x + dx)
        if 0 <= q[0] < h and 0 <= q[1] < w:
            cells.add(q)
    return cells


def plant_creek(rng):
    h, w = shape(rng)
    Wh = grow_connected(rng, h, w, rng.uniform(0.4, 0.8))
    p = [[-1] * (w + 1) for _ in range(h + 1)]
    for y in range(h + 1):
        for x in range(w + 1):
            if rng.random() < 0.5:
                p[y][x] = sum(1 for yy, xx in ((y - 1, x - 1), (y - 1, x), (y, x - 1), (y, x)) if 0 <= yy < h and 0 <= xx < w and (yy, xx) not in Wh)
    inst = {"h": h, "w": w, "p": p}
    return inst, R.set_sol(h, w, Wh), R._creek_valid(inst, Wh, "std")


def plant_gokigen(rng):
    h, w = shape(rng)
    par = {}

    def f(a):
        while par.setdefault(a, a) != a:
            par[a] = par[par[a]]
            a = par[a]
        return a

    S = set()
    for y, x in rng.sample(allc(h, w), h * w):
        opts = [True, False]
        rng.shuffle(opts)
        done = False
        for back in opts:
            e = ((y, x), (y + 1, x + 1)) if back else ((y, x + 1), (y + 1, x))
            if f(e[0]) != f(e[1]):
                par[f(e[0])] = f(e[1])
                if back:
                    S.add((y, x))
                done = True
                break
        if not done:
            return None
    deg = {}
    for y, x in allc(h, w):
        e = ((y, x), (y + 1, x + 1)) if (y, x) in S else ((y, x + 1), (y + 1, x))
        for v in e:
            deg[v] = deg.get(v, 0) + 1
    p = [[(deg.get((y, x), 0) if rng.random() < 0.5 else -1) for x in range(w + 1)] for y in range(h + 1)]
    inst = {"h": h, "w": w, "p": p}
    return inst, R.set_sol(h, w, S), R._gok_valid(inst, S, "std")


def plant_akari(rng):
    h, w = shape(rng)
    p = [[(-1 if rng.random() < 0.2 else -2) for _ in range(w)] for _ in range(h)]
    lit = set()
    L = set()

    def sees(y, x):
        for dy, dx in N4:
            yy, xx = y + dy, x + dx
            while 0 <= yy < h and 0 <= xx < w and p[yy][xx] == -2:
                yield (yy, xx)
                yy += dy
                xx += dx

    for y, x in rng.sample(allc(h, w), h * w):
        if p[y][x] == -2 and (y, x) not in lit:
            L.add((y, x))
            lit.add((y, x))
            lit.update(sees(y, x))
    for y, x in allc(h, w):
        if p[y][x] == -1 and rng.random() < 0.6:
            p[y][x] = sum(1 for dy, dx in N4 if (y + dy, x + dx) in L)
    inst = {"h": h, "w": w, "p": p}
    return inst, R.set_sol(h, w, L), R._ak_valid(inst, L, "std")


def plant_heyawake(rng):
    h, w = shape(rng, 4, 6)
    B = set()
    for y, x in rng.sample(allc(h, w), h * w):
        if rng.random() < 0.45 and not any((y + dy, x + dx) in B for dy, dx in N4):
            if conn(set(allc(h, w)) - B - {(y, x)}):
                B.add((y, x))
    rooms = R.randrooms(rng, h, w, rng.randint(2, 5))
    clues = [(sum(1 for c in rm if tuple(c) in B) if rng.random() < 0.7 else -1) for rm in rooms]
    inst = {"h": h, "w": w, "rooms": rooms, "clues": clues}
    return inst, R.set_sol(h, w, B), R._hey_valid(inst, B, "std")


def plant_aquarium(rng):
    h, w = shape(rng)
    rooms = R.randrooms(rng, h, w, rng.randint(2, 6))
    S = set()
    for rm in rooms:
        ys = sorted({c[0] for c in rm})
        L = rng.choice(ys + [h + 1])
        S |= {tuple(c) for c in rm if c[0] >= L}
    row = [(sum(1 for x in range(w) if (y, x) in S) if rng.random() < 0.7 else -1) for y in range(h)]
    col = [(sum(1 for y in range(h) if (y, x) in S) if rng.random() < 0.7 else -1) for x in range(w)]
    inst = {"h": h, "w": w, "rooms": rooms, "row": row, "col": col}
    return inst, R.set_sol(h, w, S), R._aq_valid(inst, S, "level-local") and R._aq_valid(inst, S, "level-shared-in-tank")


# ----------------------------------------------------------------------------- number puzzles
def plant_sudoku(rng):
    n = 3
    size = 9
    canon = [[(n * (y % n) + y // n + x) % size + 1 for x in range(size)] for y in range(size)]
    perm = list(range(1, size + 1))
    rng.shuffle(perm)
    full = [[perm[v - 1] for v in row] for row in canon]
    # shuffle rows within bands / columns within stacks, keeps validity
    rows = [b * 3 + r for b in rng.sample(range(3), 3) for r in rng.sample(range(3), 3)]
    cols = [b * 3 + r for b in rng.sample(range(3), 3) for r in rng.sample(range(3), 3)]
    full = [[full[r][c] for c in cols] for r in rows]
    dens = rng.choice([0.3, 0.45, 0.6])
    p = [[full[y][x] if rng.random() < dens else 0 for x in range(size)] for y in range(size)]
    ok = all(sorted(r) == list(range(1, 10)) for r in full) and all(sorted(full[y][x] for y in range(9)) == list(range(1, 10)) for x in range(9)) \
        and all(sorted(full[by + a][bx + b] for a in range(3) for b in range(3)) == list(range(1, 10)) for by in (0, 3, 6) for bx in (0, 3, 6))
    return {"n": 3, "p": p}, {f"{y},{x}": full[y][x] for y in range(9) for x in range(9)}, ok


def random_latin(rng, n):
    base = [[(y + x) % n + 1 for x in range(n)] for y in range(n)]
    rows = rng.sample(range(n), n)
    cols = rng.sample(range(n), n)
    sym = rng.sample(range(1, n + 1), n)
    return [[sym[base[r][c] - 1] for c in cols] for r in rows]


def plant_building(rng):
    n = rng.choice([4, 5, 6])
    g = random_latin(rng, n)

    def cl(seq):
        return R._vis(seq) if rng.random() < 0.5 else 0

    up = [cl([g[y][x] for y in range(n)]) for x in range(n)]
    dw = [cl([g[y][x] for y in range(n)][::-1]) for x in range(n)]
    lf = [cl(g[y]) for y in range(n)]
    rg = [cl(g[y][::-1]) for y in range(n)]
    return {"n": n, "cl": [up, dw, lf, rg]}, {f"{y},{x}": g[y][x] for y in range(n) for x in range(n)}, True


def plant_doppelblock(rng):
    n = rng.choice([5, 6, 7])
    g = random_latin(rng, n)  # symbols n-1 and n become the two black cells of every row / column
    g = [[0 if v >= n - 1 else v for v in row] for row in g]
    row = [(R._between(g[y]) if rng.random() < 0.6 else -1) for y in range(n)]
    col = [(R._between([g[y][x] for y in range(n)]) if rng.random() < 0.6 else -1) for x in range(n)]
    return {"n": n, "row": row, "col": col}, {f"{y},{x}": g[y][x] for y in range(n) for x in range(n)}, True


def plant_compass(rng):
    h, w = shape(rng, 3, 5)
    rooms = R.randrooms(rng, h, w, rng.randint(2, 4))
    prob = []
    L = {}
    for t, rm in enumerate(rooms):
        y, x = rng.choice(rm)
        reg = [tuple(c) for c in rm]
        for c in reg:
            L[c] = t
        vals = [sum(1 for c in reg if c[0] < y), sum(1 for c in reg if c[1] < x), sum(1 for c in reg if c[0] > y), sum(1 for c in reg if c[1] > x)]
        prob.append([y, x] + [(v if rng.random() < 0.7 else -1) for v in vals])
    return {"h": h, "w": w, "prob": prob}, {f"{y},{x}": L[(y, x)] for y, x in allc(h, w)}, True


def plant_fillomino(rng):
    h, w = shape(rng, 3, 6)
    rooms = [[tuple(c) for c in rm] for rm in R.randrooms(rng, h, w, rng.randint(3, 8))]
    # merge edge-adjacent blocks of equal size until none is left
    for _ in range(100):
        bid = {c: k for k, rm in enumerate(rooms) for c in rm}
        merged = False
        for y, x in allc(h, w):
            for d in ((1, 0), (0, 1)):
                q = (y + d[0], x + d[1])
                if q in bid and bid[q] != bid[(y, x)] and len(rooms[bid[q]]) == len(rooms[bid[(y, x)]]):
                    a, b = bid[(y, x)], bid[q]
                    rooms[a] = rooms[a] + rooms[b]
                    rooms.pop(b)
                    merged = True
                    break
            if merged:
                break
        if not merged:
            break
    if max(len(rm) for rm in rooms) > 8:
        return None  # blocks of 10+ cells make the real encoding take minutes in z3; not what this stage is for
    size = {c: len(rm) for rm in rooms for c in rm}
    p = [[(size[(y, x)] if rng.random() < 0.45 else 0) for x in range(w)] for y in range(h)]
    bid = {c: k for k, rm in enumerate(rooms) for c in rm}
    ok = all(not (q in bid and bid[q] != bid[c] and size[q] == size[c]) for c in allc(h, w) for q in ((c[0] + 1, c[1]), (c[0], c[1] + 1)))
    return {"h": h, "w": w, "p": p}, {f"{y},{x}": size[(y, x)] for y, x in allc(h, w)}, ok


def plant_view(rng):
    """A connected set of number cells; every number = empty cells seen in the four directions; edge-adjacent numbers differ.
    Clues: a subset of the numbers, the largest one always among them (the domain of the numbers must reach it)."""
    h, w = shape(rng, 4, 6)
    M = grow_connected(rng, h, w, rng.choice([0.08, 0.15, 0.3, 0.5]))
    nums = {}
    for c in allc(h, w):
        k = 0
        if c in M:
            for dy, dx in N4:
                q = (c[0] + dy, c[1] + dx)
                while 0 <= q[0] < h and 0 <= q[1] < w and q not in M:
                    k += 1
                    q = (q[0] + dy, q[1] + dx)
        nums[c] = k
    ok = all(not (q in M and nums[q] == nums[c]) for c in M for q in ((c[0] + 1, c[1]), (c[0], c[1] + 1)))
    top = max(M, key=lambda c: nums[c])
    p = [[(nums[(y, x)] if (y, x) in M and ((y, x) == top or rng.random() < 0.4) else -1) for x in range(w)] for y in range(h)]
    sol = {}
    for c in allc(h, w):
        sol[f"m{c[0]},{c[1]}"] = c in M
        sol[f"n{c[0]},{c[1]}"] = nums[c]
    return {"h": h, "w": w, "p": p}, sol, ok


def plant_nurikabe(rng):
    """Sea: connected, no 2x2 pool; every island gets one clue (its size, or '?' = -1)."""
    h, w = shape(rng, 4, 6)
    cells = allc(h, w)
    white = {c for c in cells if rng.random() < 0.3}
    for _ in range(200):
        black = set(cells) - white
        pools = [(y, x) for y in range(h - 1) for x in range(w - 1)
                 if all(q in black for q in ((y, x), (y + 1, x), (y, x + 1), (y + 1, x + 1)))]
        if not pools:
            break
        y, x = rng.choice(pools)
        white.add(rng.choice([(y, x), (y + 1, x), (y, x + 1), (y + 1, x + 1)]))
    black = set(cells) - white
    if not black or not conn(black) or not white:
        return None
    from ..workloads.graphdrv import components_of

    p = [[0] * w for _ in range(h)]
    for isl in components_of(h, w, white):
        y, x = rng.choice(sorted(isl))
        p[y][x] = len(isl) if rng.random() < 0.8 else -1
    inst = {"h": h, "w": w, "p": p}
    ok = not any(all(q in black for q in ((y, x), (y + 1, x), (y, x + 1), (y + 1, x + 1))) for y in range(h - 1) for x in range(w - 1))
    return inst, R.set_sol(h, w, white), ok


def plant_norinori(rng):
    """Dominoes that do not touch each other by an edge; every room is grown around one domino (so it holds exactly two shaded cells)."""
    h, w = shape(rng, 4, 6)
    S, doms = set(), []
    for y, x in rng.sample(allc(h, w), h * w):
        dy, dx = rng.choice([(0, 1), (1, 0)])
        a, b = (y, x), (y + dy, x + dx)
        if not (b[0] < h and b[1] < w) or rng.random() < 0.5:
            continue
        if any((c[0] + ey, c[1] + ex) in S for c in (a, b) for ey, ex in N4) or a in S or b in S:
            continue
        S |= {a, b}
        doms.append([a, b])
    if not doms:
        return None
    owner = {c: k for k, d in enumerate(doms) for c in d}
    while len(owner) < h * w:
        c = rng.choice(sorted(owner))
        dy, dx = rng.choice(N4)
        q = (c[0] + dy, c[1] + dx)
        if 0 <= q[0] < h and 0 <= q[1] < w and q not in owner:
            owner[q] = owner[c]
    rooms = [[list(c) for c in sorted(owner) if owner[c] == k] for k in range(len(doms))]
    inst = {"h": h, "w": w, "rooms": rooms}
    return inst, R.set_sol(h, w, S), True


TETRO = [[(0, 0), (0, 1), (0, 2), (0, 3)], [(0, 0), (1, 0), (2, 0), (2, 1)], [(0, 0), (0, 1), (0, 2), (1, 1)], [(0, 0), (0, 1), (1, 1), (1, 2)]]


def _orientations(cells):
    out = set()
    cs = list(cells)
    for _ in range(4):
        cs = [(x, -y) for y, x in cs]
        for m in (cs, [(y, -x) for y, x in cs]):
            my, mx = min(y for y, x in m), min(x for y, x in m)
            out.add(tuple(sorted((y - my, x - mx) for y, x in m)))
    return sorted(out)


def plant_lits(rng):
    """Tetrominoes placed one after the other, each touching the shaded area by an edge (connectivity), never closing a 2x2 block,
    never touching a tetromino of its own shape; every room is then grown around exactly one tetromino."""
    h, w = shape(rng, 4, 6)
    placed = []  # (shape index, cells)
    B = {}
    for _ in range(rng.randint(2, 5)):
        for _try in range(60):
            k = rng.randrange(4)
            o = rng.choice(_orientations(TETRO[k]))
            oy, ox = rng.randrange(h), rng.randrange(w)
            cells = [(oy + y, ox + x) for y, x in o]
            if any(not (0 <= y < h and 0 <= x < w) or (y, x) in B for y, x in cells):
                continue
            touch = {B[(y + dy, x + dx)] for y, x in cells for dy, dx in N4 if (y + dy, x + dx) in B}
            if placed and not touch:
                continue
            if any(placed[t][0] == k for t in touch):
                continue
            nb = set(B) | set(cells)
            if any(all(c in nb for c in ((y, x), (y + 1, x), (y, x + 1), (y + 1, x + 1))) for y in range(h - 1) for x in range(w - 1)):
                continue
            for c in cells:
                B[c] = len(placed)
            placed.append((k, cells))
            break
    if len(placed) < 2:
        return None
    owner = dict(B)
    while len(owner) < h * w:
        c = rng.choice(sorted(owner))
        dy, dx = rng.choice(N4)
        q = (c[0] + dy, c[1] + dx)
        if 0 <= q[0] < h and 0 <= q[1] < w and q not in owner:
            owner[q] = owner[c]
    rooms = [[list(c) for c in sorted(owner) if owner[c] == k] for k in range(len(placed))]
    inst = {"h": h, "w": w, "rooms": rooms}
    return inst, R.set_sol(h, w, set(B)), R._lits_valid(inst, set(B), "std")


def plant_yinyang(rng):
    """A random two-colouring with both colours connected and no single-coloured 2x2 block, found by growing one colour from the
    border inwards and repairing; clues = a random subset of the cells."""
    h, w = shape(rng, 4, 6)
    cells = allc(h, w)
    for _ in range(300):
        B = grow_connected(rng, h, w, rng.uniform(0.35, 0.65))
        inst = {"h": h, "w": w, "p": [[0] * w for _ in range(h)]}
        # repair single-coloured 2x2 blocks by flipping one of their cells a few times
        for _rep in range(40):
            bad = [(y, x) for y in range(h - 1) for x in range(w - 1)
                   if sum(1 for c in ((y, x), (y + 1, x), (y, x + 1), (y + 1, x + 1)) if c in B) in (0, 4)]
            if not bad:
                break
            y, x = rng.choice(bad)
            c = rng.choice([(y, x), (y + 1, x), (y, x + 1), (y + 1, x + 1)])
            B ^= {c}
        if R._yy_valid(inst, B, "std"):
            p = [[(2 if (y, x) in B else 1) if rng.random() < 0.35 else 0 for x in range(w)] for y in range(h)]
            inst["p"] = p
            return inst, R.set_sol(h, w, B), R._yy_valid(inst, B, "std")
    return None


def _tile5(rng, cells, cap=4000):
    """random partition of `cells` into orthogonally connected blocks of five (randomised backtracking, node cap) or None"""
    cells = set(cells)
    nodes = [0]

    def blocks_with(first, avail):
        out = []

        def grow(cur, banned):
            if len(out) > 60:
                return
            if len(cur) == 5:
                out.append(frozenset(cur))
                return
            cand = sorted({(y + dy, x + dx) for y, x in cur for dy, dx in N4} & avail - cur - banned)
            rng.shuffle(cand)
            b = set(banned)
            for c in cand:
                grow(cur | {c}, frozenset(b))
                b.add(c)
        grow(frozenset([first]), frozenset())
        rng.shuffle(out)
        return out

    def rec(avail):
        nodes[0] += 1
        if nodes[0] > cap:
            return None
        if not avail:
            return []
        first = min(avail)
        for b in blocks_with(first, avail):
            r = rec(avail - b)
            if r is not None:
                return [b] + r
        return None
    return rec(frozenset(cells))


def plant_fivecells(rng):
    h, w = rng.choice([(4, 5), (5, 4), (5, 5), (5, 6), (6, 5), (3, 5), (5, 3), (4, 4), (6, 4)])
    cells = allc(h, w)
    holes = (h * w) % 5
    if rng.random() < 0.4 and h * w - holes - 5 >= 10:
        holes += 5
    hs = set(rng.sample(cells, holes))
    part = _tile5(rng, [c for c in cells if c not in hs])
    if part is None:
        return None
    bid = {c: k for k, b in enumerate(part) for c in b}
    p = [[-2 if (y, x) in hs else -1 for x in range(w)] for y in range(h)]
    for y, x in bid:
        if rng.random() < 0.35:
            p[y][x] = sum(1 for dy, dx in N4 if (y + dy, x + dx) not in bid or bid[(y + dy, x + dx)] != bid[(y, x)])
    inst = {"h": h, "w": w, "p": p}
    edges = R._five_edges(inst)
    return inst, {f"e{k}": bid[a] != bid[b] for k, (a, b) in enumerate(edges)}, True


PLANTERS = {
    "slitherlink": plant_slitherlink, "masyu": plant_masyu, "geradeweg": plant_geradeweg, "simpleloop": plant_simpleloop,
    "yajilin": plant_yajilin, "castle_wall": plant_castle_wall, "creek": plant_creek, "gokigen": plant_gokigen, "akari": plant_akari,
    "heyawake": plant_heyawake, "aquarium": plant_aquarium, "sudoku": plant_sudoku, "building": plant_building,
    "doppelblock": plant_doppelblock, "compass": plant_compass, "fillomino": plant_fillomino,
    "view": plant_view, "nurikabe": plant_nurikabe, "norinori": plant_norinori, "lits": plant_lits, "yinyang": plant_yinyang,
    "fivecells": plant_fivecells,
}


def plant(name, rng, tries=30):
    for _ in range(tries):
        r = PLANTERS[name](rng)
        if r is not None and r[2]:
            return r[0], r[1]
    return None
