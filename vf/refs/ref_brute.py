"""Exhaustive model enumeration of a cspuz constraint program by backtracking
over the declared domains, filtering with ref_eval.  Ground truth for small
programs (C01/C02 and as cross-check elsewhere)."""
from cspuz.expr import BoolVar, IntVar

from .ref_eval import ev, var_ids, IllTyped  # noqa


class TooLarge(Exception):
    pass


def domain(v):
    if isinstance(v, BoolVar):
        return (False, True)
    return range(v.lo, v.hi + 1)


def domain_product(variables, cap=None):
    p = 1
    for v in variables:
        p *= 2 if isinstance(v, BoolVar) else max(0, v.hi - v.lo + 1)
        if cap is not None and p > cap:
            return p
    return p


def _plan(variables, constraints):
    pos = {v.id: i for i, v in enumerate(variables)}
    buckets = [[] for _ in range(len(variables) + 1)]  # bucket k: checkable once first k vars are set
    for c in constraints:
        ids = var_ids(c)
        k = 0
        for i in ids:
            if i not in pos:
                raise IllTyped(f"constraint mentions undeclared variable {i}")
            k = max(k, pos[i] + 1)
        buckets[k].append(c)
    return buckets


def models(variables, constraints, node_cap=2_000_000):
    """Yield every satisfying assignment as a dict id -> value (fresh dict each)."""
    buckets = _plan(variables, constraints)
    env = {}
    for c in buckets[0]:
        if not ev(c, env):
            return
    n = len(variables)
    if n == 0:
        yield {}
        return
    nodes = [0]
    doms = [list(domain(v)) for v in variables]
    ids = [v.id for v in variables]

    def rec(k):
        if k == n:
            yield dict(env)
            return
        i = ids[k]
        for val in doms[k]:
            nodes[0] += 1
            if nodes[0] > node_cap:
                raise TooLarge()
            env[i] = val
            ok = True
            for c in buckets[k + 1]:
                if not ev(c, env):
                    ok = False
                    break
            if ok:
                yield from rec(k + 1)
        env.pop(i, None)

    yield from rec(0)


def satisfiable(variables, constraints, node_cap=2_000_000):
    for m in models(variables, constraints, node_cap):
        return True, m
    return False, None


def facts(variables, constraints, key_ids, node_cap=2_000_000, model_cap=200_000):
    """(sat, table) where table[id] = forced value or None (keys on which models disagree)."""
    table = None
    cnt = 0
    live = set(key_ids)
    for m in models(variables, constraints, node_cap):
        cnt += 1
        if cnt > model_cap:
            raise TooLarge()
        if table is None:
            table = {i: m[i] for i in key_ids}
        else:
            for i in list(live):
                if table[i] != m[i]:
                    table[i] = None
                    live.discard(i)
    if table is None:
        return False, None, 0
    return True, table, cnt


def check_model(variables, constraints, env):
    """Is env (id -> value) a genuine model?  Returns None if yes, else a reason string."""
    for v in variables:
        x = env.get(v.id)
        if isinstance(v, BoolVar):
            if type(x) is not bool:
                return f"variable {v.id}: sol {x!r} is not a bool"
        else:
            if type(x) is not int:
                return f"variable {v.id}: sol {x!r} is not an int"
            if not (v.lo <= x <= v.hi):
                return f"variable {v.id}: sol {x} outside [{v.lo},{v.hi}]"
    for k, c in enumerate(constraints):
        if not ev(c, env):
            return f"constraint #{k} is false under the reported model"
    return None
