"""Graph-theoretic *definitions* used as oracles (no encodings, no cspuz code).

Graphs are (n, edges) with edges a list of (u, v) pairs (parallel edges allowed,
self-loops not used).  Everything is a few lines of BFS / union-find.
"""
import itertools


class UF:
    def __init__(self, n):
        self.p = list(range(n))

    def find(self, x):
        while self.p[x] != x:
            self.p[x] = self.p[self.p[x]]
            x = self.p[x]
        return x

    def union(self, a, b):
        a, b = self.find(a), self.find(b)
        if a == b:
            return False
        self.p[a] = b
        return True


def adjacency(n, edges):
    adj = [[] for _ in range(n)]
    for u, v in edges:
        adj[u].append(v)
        adj[v].append(u)
    return adj


def induced_connected(n, edges, active):
    """Do the active vertices induce a connected subgraph? (no active vertex: True)"""
    act = [v for v in range(n) if active[v]]
    if not act:
        return True
    adj = adjacency(n, edges)
    seen = {act[0]}
    stack = [act[0]]
    while stack:
        u = stack.pop()
        for w in adj[u]:
            if active[w] and w not in seen:
                seen.add(w)
                stack.append(w)
    return len(seen) == len(act)


def induced_tree_or_empty(n, edges, active):
    act = [v for v in range(n) if active[v]]
    if not act:
        return True
    if not induced_connected(n, edges, active):
        return False
    m = sum(1 for u, v in edges if active[u] and active[v])
    return m == len(act) - 1


def is_forest(n, edges, active_edge):
    uf = UF(n)
    for k, (u, v) in enumerate(edges):
        if active_edge[k]:
            if u == v or not uf.union(u, v):
                return False
    return True


def no_adjacent(n, edges, active):
    return not any(active[u] and active[v] for u, v in edges)


def degrees(n, edges, active_edge):
    deg = [0] * n
    for k, (u, v) in enumerate(edges):
        if active_edge[k]:
            deg[u] += 1
            deg[v] += 1
    return deg


def _edges_connected(n, edges, active_edge):
    uf = UF(n)
    touched = set()
    for k, (u, v) in enumerate(edges):
        if active_edge[k]:
            uf.union(u, v)
            touched.add(u)
            touched.add(v)
    return len({uf.find(v) for v in touched}) <= 1


def single_cycle_or_empty(n, edges, active_edge):
    """Active edges are empty or form exactly one simple cycle (two parallel
    edges between the same endpoints are a cycle of length 2)."""
    if not any(active_edge):
        return True
    deg = degrees(n, edges, active_edge)
    if any(d not in (0, 2) for d in deg):
        return False
    return _edges_connected(n, edges, active_edge)


def single_path(n, edges, active_edge):
    """Active edges form exactly one simple path with >= 1 edge."""
    if not any(active_edge):
        return False
    deg = degrees(n, edges, active_edge)
    if any(d > 2 for d in deg):
        return False
    if sum(1 for d in deg if d == 1) != 2:
        return False
    return _edges_connected(n, edges, active_edge)


def visited(n, edges, active_edge):
    deg = degrees(n, edges, active_edge)
    return [d > 0 for d in deg]


def classes_connected(n, edges, labels, num_regions, allow_empty, roots=None):
    """division_connected definition (labels assumed in range)."""
    for k in range(num_regions):
        act = [labels[v] == k for v in range(n)]
        if not any(act):
            if not allow_empty:
                return False
            continue
        if not induced_connected(n, edges, act):
            return False
    if roots is not None:
        for k, r in enumerate(roots):
            if r is not None and labels[r] != k:
                return False
    return True


def blocks_of_cut(n, edges, is_border):
    """Blocks (as a vertex -> block representative list) after cutting border edges."""
    uf = UF(n)
    for k, (u, v) in enumerate(edges):
        if not is_border[k]:
            uf.union(u, v)
    return [uf.find(v) for v in range(n)]


def partition_ok(n, edges, block_of, sizes):
    """Every block induces a connected subgraph and every vertex with a
    specified size (sizes[v] is not None) lies in a block of exactly that size."""
    blocks = {}
    for v in range(n):
        blocks.setdefault(block_of[v], []).append(v)
    for b, vs in blocks.items():
        act = [block_of[v] == b for v in range(n)]
        if not induced_connected(n, edges, act):
            return False
        for v in vs:
            if sizes[v] is not None and sizes[v] != len(vs):
                return False
    return True


def borders_ok(n, edges, is_border, sizes):
    bl = blocks_of_cut(n, edges, is_border)
    for k, (u, v) in enumerate(edges):
        if is_border[k] and bl[u] == bl[v]:
            return False
    return partition_ok(n, edges, bl, sizes)


def set_partitions(items):
    """All set partitions of a list (as lists of blocks)."""
    items = list(items)
    if not items:
        yield []
        return
    first, rest = items[0], items[1:]
    for part in set_partitions(rest):
        for i in range(len(part)):
            yield part[:i] + [[first] + part[i]] + part[i + 1:]
        yield [[first]] + part


def grid_edges(h, w):
    """Edges of the h x w grid graph as a *set of unordered pairs* (definition level)."""
    e = []
    for y in range(h):
        for x in range(w):
            if x + 1 < w:
                e.append((y * w + x, y * w + x + 1))
            if y + 1 < h:
                e.append((y * w + x, (y + 1) * w + x))
    return e


def all_graphs(n, multi=1):
    """All loop-free (multi)graphs on n labelled vertices with edge multiplicity <= multi."""
    pairs = list(itertools.combinations(range(n), 2))
    for mult in itertools.product(range(multi + 1), repeat=len(pairs)):
        edges = []
        for (u, v), k in zip(pairs, mult):
            edges += [(u, v)] * k
        yield edges


def canon_graph(n, edges):
    """Canonical form under vertex relabelling (n <= 6: brute force over permutations)."""
    best = None
    for perm in itertools.permutations(range(n)):
        e = sorted(tuple(sorted((perm[u], perm[v]))) for u, v in edges)
        if best is None or e < best:
            best = e
    return best


def graphs_up_to_iso(n, multi=1):
    seen = set()
    for edges in all_graphs(n, multi):
        c = tuple(canon_graph(n, edges))
        if c not in seen:
            seen.add(c)
            yield list(c)


# --- crossable strands (C10): union-find over SEGMENTS, not the vertex-splitting of cspuz ---
def crossable_ok(h, w, hor, ver, single_cycle):
    """Frame of h x w cells: points (0..h, 0..w).  hor[y][x] = segment (y,x)-(y,x+1)
    (y in 0..h, x in 0..w-1), ver[y][x] = segment (y,x)-(y+1,x).
    Returns (ok, passed, cross) per the statement of C10."""
    H, W = h + 1, w + 1
    segs = []
    idx = {}
    for y in range(H):
        for x in range(W - 1):
            if hor[y][x]:
                idx[("h", y, x)] = len(segs)
                segs.append(("h", y, x))
    for y in range(H - 1):
        for x in range(W):
            if ver[y][x]:
                idx[("v", y, x)] = len(segs)
                segs.append(("v", y, x))
    uf = UF(len(segs))
    passed = [[False] * W for _ in range(H)]
    cross = [[False] * W for _ in range(H)]
    ok = True
    for y in range(H):
        for x in range(W):
            left = idx.get(("h", y, x - 1)) if x > 0 else None
            right = idx.get(("h", y, x)) if x < W - 1 else None
            up = idx.get(("v", y - 1, x)) if y > 0 else None
            down = idx.get(("v", y, x)) if y < H - 1 else None
            inc = [s for s in (left, right, up, down) if s is not None]
            d = len(inc)
            passed[y][x] = d > 0
            cross[y][x] = d == 4
            if d == 3:
                ok = False
            if single_cycle and d == 1:
                ok = False
            if d == 4:
                interior = 0 < y < H - 1 and 0 < x < W - 1
                if not interior:
                    ok = False  # cannot happen geometrically, kept for symmetry
                uf.union(left, right)
                uf.union(up, down)
            elif d >= 2:
                for s in inc[1:]:
                    uf.union(inc[0], s)
    if len({uf.find(i) for i in range(len(segs))}) > 1:
        ok = False
    return ok, passed, cross
