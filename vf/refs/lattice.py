"""Geometry of an h x w cell frame, from first principles (C06, C10, C14).

Points (y, x), 0<=y<=h, 0<=x<=w.  A segment is a pair of points at distance 1:
  ('h', y, x) joins (y, x)-(y, x+1)   0<=y<=h, 0<=x<w
  ('v', y, x) joins (y, x)-(y+1, x)   0<=y<h,  0<=x<=w
Documented addresses of cspuz.BoolGridFrame: horizontal[y, x], vertical[y, x],
doubled coordinates (2y, 2x+1) for 'h' and (2y+1, 2x) for 'v'."""


def segments(h, w):
    """All segments in the canonical lattice order used by the harness: horizontals row-major, then verticals row-major."""
    return [("h", y, x) for y in range(h + 1) for x in range(w)] + [("v", y, x) for y in range(h) for x in range(w + 1)]


def ends(seg):
    k, y, x = seg
    return ((y, x), (y, x + 1)) if k == "h" else ((y, x), (y + 1, x))


def doubled(seg):
    k, y, x = seg
    return (2 * y, 2 * x + 1) if k == "h" else (2 * y + 1, 2 * x)


def seg_at_doubled(h, w, Y, X):
    """Segment addressed by doubled coordinates, or None if (Y, X) is not a segment of the frame."""
    if not (0 <= Y <= 2 * h and 0 <= X <= 2 * w):
        return None
    if Y % 2 == 0 and X % 2 == 1:
        return ("h", Y // 2, X // 2)
    if Y % 2 == 1 and X % 2 == 0:
        return ("v", Y // 2, X // 2)
    return None


def cell_sides(y, x):
    """The four sides of cell (y, x): top, bottom, left, right."""
    return [("h", y, x), ("h", y + 1, x), ("v", y, x), ("v", y, x + 1)]


def point_segments(h, w, y, x):
    """Segments incident to point (y, x): up, down, left, right (those that exist)."""
    out = []
    if y > 0:
        out.append(("v", y - 1, x))
    if y < h:
        out.append(("v", y, x))
    if x > 0:
        out.append(("h", y, x - 1))
    if x < w:
        out.append(("h", y, x))
    return out


def cells_separated(h, w, seg):
    """The (up to two) cells a segment separates."""
    k, y, x = seg
    if k == "h":
        c = [(y - 1, x), (y, x)]
    else:
        c = [(y, x - 1), (y, x)]
    return [(a, b) for a, b in c if 0 <= a < h and 0 <= b < w]


def point_id(w, p):
    return p[0] * (w + 1) + p[1]


def as_graph(h, w):
    """(n, edges) of the lattice with edges in canonical segment order."""
    segs = segments(h, w)
    return (h + 1) * (w + 1), [(point_id(w, ends(s)[0]), point_id(w, ends(s)[1])) for s in segs]


def frame_var(frame, seg):
    k, y, x = seg
    return frame.horizontal[y, x] if k == "h" else frame.vertical[y, x]


def simple_cycles(n, edges):
    """All simple cycles of a simple graph as frozensets of edge indices (DFS from the smallest vertex of each cycle)."""
    adj = [[] for _ in range(n)]
    for k, (u, v) in enumerate(edges):
        adj[u].append((v, k))
        adj[v].append((u, k))
    found = set()
    for start in range(n):
        stack = [(start, frozenset([start]), frozenset())]
        while stack:
            u, seen, used = stack.pop()
            for v, k in adj[u]:
                if k in used:
                    continue
                if v == start and len(used) >= 2:
                    found.add(used | {k})
                elif v > start and v not in seen:
                    stack.append((v, seen | {v}, used | {k}))
    return found
