"""Independent SMT-LIB 2 printer for cspuz trees + an independent solver binary
(cvc5 1.0; optionally the *system* z3 4.8.12 CLI, a different build from the
z3 5.1 wheel that cspuz links).  Used where brute force is too large.

Returns 'sat' / 'unsat' / None (unknown or timeout => the caller treats the
case as inconclusive)."""
import os
import shutil
import subprocess

from cspuz.expr import Op, BoolVar, IntVar, Expr

from .ref_eval import IllTyped

CVC5 = shutil.which("cvc5") or "/usr/bin/cvc5"
SYSZ3 = "/usr/bin/z3"


def _num(n):
    return str(n) if n >= 0 else f"(- {-n})"


def pr(e):
    if type(e) is bool:
        return "true" if e else "false"
    if type(e) is int:
        return _num(e)
    if isinstance(e, BoolVar):
        return f"b{e.id}"
    if isinstance(e, IntVar):
        return f"i{e.id}"
    if not isinstance(e, Expr):
        raise IllTyped("not an expression")
    op = e.op
    if op is Op.BOOL_CONSTANT or op is Op.INT_CONSTANT:
        return pr(e.operands[0])
    o = [pr(x) for x in e.operands]
    if op is Op.NEG:
        return f"(- {o[0]})"
    if op is Op.ADD:
        return o[0] if len(o) == 1 else "(+ " + " ".join(o) + ")"
    if op is Op.SUB:
        return "(- " + " ".join(o) + ")"
    m = {Op.EQ: "=", Op.LE: "<=", Op.LT: "<", Op.GE: ">=", Op.GT: ">", Op.IFF: "=", Op.XOR: "xor",
         Op.IMP: "=>", Op.IF: "ite", Op.NOT: "not"}
    if op in m:
        return f"({m[op]} " + " ".join(o) + ")"
    if op is Op.NE:
        return f"(not (= {o[0]} {o[1]}))"
    if op is Op.AND:
        return "true" if not o else ("(and " + " ".join(o) + ")" if len(o) > 1 else o[0])
    if op is Op.OR:
        return "false" if not o else ("(or " + " ".join(o) + ")" if len(o) > 1 else o[0])
    if op is Op.ALLDIFF:
        return "true" if len(o) < 2 else "(distinct " + " ".join(o) + ")"
    raise IllTyped(f"no SMT form for {op}")


def script(variables, constraints, extra=()):
    L = ["(set-logic QF_LIA)"]
    for v in variables:
        if isinstance(v, BoolVar):
            L.append(f"(declare-const b{v.id} Bool)")
        else:
            L.append(f"(declare-const i{v.id} Int)")
            L.append(f"(assert (and (<= {_num(v.lo)} i{v.id}) (<= i{v.id} {_num(v.hi)})))")
    for c in constraints:
        L.append(f"(assert {pr(c)})")
    for x in extra:
        L.append(f"(assert {x})")
    L.append("(check-sat)")
    return "\n".join(L) + "\n"


def _run(cmd, text, timeout):
    try:
        r = subprocess.run(cmd, input=text.encode(), capture_output=True, timeout=timeout)
    except (subprocess.TimeoutExpired, OSError):
        return None
    out = r.stdout.decode(errors="replace").strip().splitlines()
    if out and out[0] in ("sat", "unsat"):
        return out[0]
    return None


def decide(variables, constraints, extra=(), timeout=20, second_opinion=False):
    text = script(variables, constraints, extra)
    a = _run([CVC5, "--lang", "smt2"], text, timeout)
    if second_opinion and os.path.exists(SYSZ3):
        b = _run([SYSZ3, "-in", "-smt2"], text, timeout)
        if a is None:
            return b
        if b is not None and a != b:
            raise RuntimeError("harness: cvc5 and system z3 disagree")  # broken oracle, not a verdict
    return a
