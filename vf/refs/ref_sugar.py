"""Protocol stand-in for Sugar / csugar / enigma_csp / cspuz_core: the far end of
the text protocol spoken by cspuz.backend.sugar_like.

 * parser + static checker of the CSP text (declarations, constraint terms,
   one optional '#k1 k2 ...' answer-key line)
 * evaluator written directly on the parsed text (shares nothing with ref_eval)
 * brute-force solver over the declared domains
 * reply printer in exactly the two formats of
   sugar_extension/CspuzSugarInterface.java::run()
 * model choosers (first / last / random / stubborn / scatter) used as the
   hostile schedule of C02's refinement loop
"""
import itertools

from . import graphdefs as G


class WireError(Exception):
    """The text is not a well-formed CSP description (a real solver would reject it)."""


# ----------------------------------------------------------------------------- parsing
def tokenize(line):
    out = []
    cur = ""
    for ch in line:
        if ch in "()":
            if cur:
                out.append(cur)
                cur = ""
            out.append(ch)
        elif ch in " \t":
            if cur:
                out.append(cur)
                cur = ""
        else:
            cur += ch
    if cur:
        out.append(cur)
    return out


def parse_term(tokens):
    pos = [0]

    def rec():
        if pos[0] >= len(tokens):
            raise WireError("unexpected end of term")
        t = tokens[pos[0]]
        pos[0] += 1
        if t == "(":
            items = []
            while True:
                if pos[0] >= len(tokens):
                    raise WireError("unbalanced '('")
                if tokens[pos[0]] == ")":
                    pos[0] += 1
                    return items
                items.append(rec())
        if t == ")":
            raise WireError("unbalanced ')'")
        return t

    term = rec()
    if pos[0] != len(tokens):
        raise WireError("trailing tokens after term")
    return term


def _is_int_atom(a):
    if a.startswith("-"):
        a = a[1:]
    return a.isascii() and a.isdigit() and len(a) > 0


class Program:
    def __init__(self):
        self.decls = []  # (kind, name, lo, hi) in order
        self.kind = {}  # name -> 'bool'|'int'
        self.bounds = {}
        self.constraints = []  # parsed terms
        self.keys = None  # list of names or None (finder mode)
        self.lines = []


BOOL_BIN = {"iff", "xor", "=>"}
CMP = {"=", "!=", "<=", "<", ">=", ">"}


def parse(text):
    p = Program()
    seen_constraint = False
    for ln, line in enumerate(text.split("\n")):
        if line.startswith("#"):
            if p.keys is not None:
                raise WireError("two answer-key lines")
            body = line[1:]
            p.keys = [k for k in body.split(" ") if k != ""]
            continue
        if line.strip() == "":
            raise WireError(f"empty line {ln}")
        term = parse_term(tokenize(line))
        if isinstance(term, list) and term and term[0] in ("int", "bool"):
            if term[0] == "bool":
                if len(term) != 2 or not isinstance(term[1], str):
                    raise WireError(f"bad bool declaration: {line}")
                name, lo, hi = term[1], None, None
            else:
                if len(term) != 4 or not all(isinstance(x, str) for x in term[1:]):
                    raise WireError(f"bad int declaration: {line}")
                name = term[1]
                if not (_is_int_atom(term[2]) and _is_int_atom(term[3])):
                    raise WireError(f"bad int bounds: {line}")
                lo, hi = int(term[2]), int(term[3])
            if name in p.kind:
                raise WireError(f"{name} declared twice")
            if _is_int_atom(name) or name in ("true", "false", "*"):
                raise WireError(f"bad variable name {name}")
            p.kind[name] = term[0]
            p.bounds[name] = (lo, hi)
            p.decls.append((term[0], name, lo, hi))
            if seen_constraint:
                pass  # Sugar accepts declarations anywhere before use; use-before-declare is caught below
        else:
            seen_constraint = True
            k = kind_of(term, p)
            if k != "bool":
                raise WireError(f"constraint line is not boolean: {line}")
            p.constraints.append(term)
        p.lines.append(line)
    if p.keys is not None:
        for k in p.keys:
            if k not in p.kind:
                raise WireError(f"answer key {k} is not a declared variable")
    return p


def kind_of(t, p):
    """Static kind check; raises WireError on ill-formed terms."""
    if isinstance(t, str):
        if t in ("true", "false"):
            return "bool"
        if _is_int_atom(t):
            return "int"
        if t in p.kind:
            return p.kind[t]
        raise WireError(f"undeclared name {t}")
    if not t or not isinstance(t[0], str):
        raise WireError("empty or headless term")
    op, args = t[0], t[1:]

    def need(kinds, what):
        for a, k in zip(args, kinds):
            got = kind_of(a, p)
            if got != k:
                raise WireError(f"operand of {what} has kind {got}, {k} required")

    if op in CMP:
        if len(args) != 2:
            raise WireError(f"arity of {op}")
        need(["int", "int"], op)
        return "bool"
    if op == "!":
        if len(args) != 1:
            raise WireError("arity of !")
        need(["bool"], op)
        return "bool"
    if op in ("&&", "||"):
        need(["bool"] * len(args), op)
        return "bool"
    if op in BOOL_BIN:
        if len(args) != 2:
            raise WireError(f"arity of {op}")
        need(["bool", "bool"], op)
        return "bool"
    if op == "if":
        if len(args) != 3:
            raise WireError("arity of if")
        need(["bool", "int", "int"], op)
        return "int"
    if op == "+":
        if len(args) < 1:
            raise WireError("arity of +")
        need(["int"] * len(args), op)
        return "int"
    if op == "-":
        if len(args) < 1:
            raise WireError("arity of -")
        need(["int"] * len(args), op)
        return "int"
    if op == "alldifferent":
        need(["int"] * len(args), op)
        return "bool"
    if op == "graph-active-vertices-connected":
        if len(args) < 2 or not all(isinstance(a, str) and _is_int_atom(a) for a in args[:2]):
            raise WireError("graph-active-vertices-connected: n m must be integer literals")
        n, m = int(args[0]), int(args[1])
        if len(args) != 2 + n + 2 * m or n < 0 or m < 0:
            raise WireError("graph-active-vertices-connected: wrong number of arguments")
        for a in args[2:2 + n]:
            if kind_of(a, p) != "bool":
                raise WireError("graph-active-vertices-connected: activity must be boolean")
        for a in args[2 + n:]:
            if not (isinstance(a, str) and _is_int_atom(a) and 0 <= int(a) < n):
                raise WireError("graph-active-vertices-connected: edge end point is not a vertex literal")
        return "bool"
    if op == "graph-division":
        if len(args) < 2 or not all(isinstance(a, str) and _is_int_atom(a) for a in args[:2]):
            raise WireError("graph-division: n m must be integer literals")
        n, m = int(args[0]), int(args[1])
        if len(args) != 2 + n + 3 * m or n < 0 or m < 0:
            raise WireError("graph-division: wrong number of arguments")
        for a in args[2:2 + n]:
            if a != "*" and kind_of(a, p) != "int":
                raise WireError("graph-division: size must be integer or *")
        for a in args[2 + n:2 + n + 2 * m]:
            if not (isinstance(a, str) and _is_int_atom(a) and 0 <= int(a) < n):
                raise WireError("graph-division: edge end point is not a vertex literal")
        for a in args[2 + n + 2 * m:]:
            if kind_of(a, p) != "bool":
                raise WireError("graph-division: border flag must be boolean")
        return "bool"
    raise WireError(f"unknown operator {op}")


# ----------------------------------------------------------------------------- evaluation
def sexp_eval(t, env):
    if isinstance(t, str):
        if t == "true":
            return True
        if t == "false":
            return False
        if _is_int_atom(t):
            return int(t)
        return env[t]
    op, args = t[0], t[1:]
    if op == "graph-active-vertices-connected":
        n, m = int(args[0]), int(args[1])
        act = [sexp_eval(a, env) for a in args[2:2 + n]]
        fl = [int(a) for a in args[2 + n:]]
        return G.induced_connected(n, [(fl[2 * i], fl[2 * i + 1]) for i in range(m)], act)
    if op == "graph-division":
        n, m = int(args[0]), int(args[1])
        sizes = [None if a == "*" else sexp_eval(a, env) for a in args[2:2 + n]]
        fl = [int(a) for a in args[2 + n:2 + n + 2 * m]]
        border = [sexp_eval(a, env) for a in args[2 + n + 2 * m:]]
        return G.borders_ok(n, [(fl[2 * i], fl[2 * i + 1]) for i in range(m)], border, sizes)
    v = [sexp_eval(a, env) for a in args]
    if op == "=":
        return v[0] == v[1]
    if op == "!=":
        return v[0] != v[1]
    if op == "<=":
        return v[0] <= v[1]
    if op == "<":
        return v[0] < v[1]
    if op == ">=":
        return v[0] >= v[1]
    if op == ">":
        return v[0] > v[1]
    if op == "!":
        return not v[0]
    if op == "&&":
        return all(v)
    if op == "||":
        return any(v)
    if op == "iff":
        return v[0] == v[1]
    if op == "xor":
        return v[0] != v[1]
    if op == "=>":
        return (not v[0]) or v[1]
    if op == "if":
        return v[1] if v[0] else v[2]
    if op == "+":
        return sum(v)
    if op == "-":
        if len(v) == 1:
            return -v[0]
        r = v[0]
        for x in v[1:]:
            r -= x
        return r
    if op == "alldifferent":
        return len(set(v)) == len(v)
    raise WireError(op)


def names_in(t, acc):
    if isinstance(t, str):
        acc.add(t)
    else:
        for a in t[1:]:
            names_in(a, acc)
    return acc


def models(p, node_cap=3_000_000, extra=()):
    """All models of parsed program p (dict name -> value), by backtracking."""
    order = [d[1] for d in p.decls]
    pos = {n: i for i, n in enumerate(order)}
    buckets = [[] for _ in range(len(order) + 1)]
    for c in list(p.constraints) + list(extra):
        k = 0
        for nm in names_in(c, set()):
            if nm in pos:
                k = max(k, pos[nm] + 1)
        buckets[k].append(c)
    env = {}
    for c in buckets[0]:
        if not sexp_eval(c, env):
            return
    doms = []
    for kind, name, lo, hi in p.decls:
        doms.append([False, True] if kind == "bool" else list(range(lo, hi + 1)))
    n = len(order)
    nodes = [0]

    def rec(k):
        if k == n:
            yield dict(env)
            return
        nm = order[k]
        for val in doms[k]:
            nodes[0] += 1
            if nodes[0] > node_cap:
                raise OverflowError("stand-in: search too large")
            env[nm] = val
            if all(sexp_eval(c, env) for c in buckets[k + 1]):
                yield from rec(k + 1)
        env.pop(nm, None)

    yield from rec(0)


# ----------------------------------------------------------------------------- replies
def fmt_val(v):
    if v is True:
        return "true"
    if v is False:
        return "false"
    return str(v)


def reply_finder(p, model):
    if model is None:
        return "s UNSATISFIABLE\n"
    L = ["s SATISFIABLE"]
    for kind, name, lo, hi in p.decls:
        if kind == "int":
            L.append(f"a {name}\t{model[name]}")
    for kind, name, lo, hi in p.decls:
        if kind == "bool":
            L.append(f"a {name}\t{fmt_val(model[name])}")
    L.append("a")
    return "\n".join(L) + "\n"


def reply_deduction(p, facts):
    """facts: None (unsat) or dict name -> value for exactly the decided keys."""
    if facts is None:
        return "unsat\n"
    L = ["sat"]
    for kind, name, lo, hi in p.decls:
        if kind == "int" and name in facts:
            L.append(f"{name} {facts[name]}")
    for kind, name, lo, hi in p.decls:
        if kind == "bool" and name in facts:
            L.append(f"{name} {fmt_val(facts[name])}")
    return "\n".join(L) + "\n"


def exact_facts(p, all_models):
    if not all_models:
        return None
    facts = {}
    for k in p.keys:
        vals = {m[k] for m in all_models}
        if len(vals) == 1:
            facts[k] = next(iter(vals))
    return facts


# ----------------------------------------------------------------------------- model choosers
class Chooser:
    """Which model the (finder-mode) stand-in returns.  Stateful per backend object so
    that 'stubborn' / 'scatter' can look at the previous candidate."""

    def __init__(self, mode, rng):
        self.mode = mode
        self.rng = rng
        self.prev = None

    def pick(self, ms):
        if not ms:
            return None
        mode = self.mode
        if mode == "first":
            m = ms[0]
        elif mode == "last":
            m = ms[-1]
        elif mode == "random" or self.prev is None:
            m = self.rng.choice(ms)
        else:
            def agree(x):
                return sum(1 for k, v in x.items() if self.prev.get(k) == v)
            if mode == "stubborn":
                best = max(agree(x) for x in ms)
            else:  # scatter
                best = min(agree(x) for x in ms)
            m = self.rng.choice([x for x in ms if agree(x) == best])
        self.prev = m
        return m


def answer(text, chooser=None, model_cap=100_000):
    """Whole far end: text in, reply text out.  Raises WireError on malformed input."""
    p = parse(text)
    ms = []
    if p.keys is None and (chooser is None or chooser.mode == "first"):
        for m in models(p):  # answer-finder mode, no adversary: the first model is enough
            return reply_finder(p, m)
        return reply_finder(p, None)
    for m in models(p):
        ms.append(m)
        if len(ms) > model_cap:
            raise OverflowError("stand-in: too many models")
    if p.keys is None:
        m = (chooser.pick(ms) if chooser else (ms[0] if ms else None))
        return reply_finder(p, m)
    return reply_deduction(p, exact_facts(p, ms))
