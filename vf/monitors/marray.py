"""M-ARRAY: runtime monitors for C12.

 * postcondition on array._elementwise (the choke point of every array operator,
   stays on while puzzle solvers / graph encodings run): result class and shape,
   and element i denotes op applied to the i-th elements of the operands (scalars
   broadcast) under random assignments evaluated by ref_eval;
 * contracts on the aggregate helpers count_true / fold_or / fold_and /
   alldifferent (module functions and array methods), conv2d, four_neighbors,
   four_neighbor_indices: value equals the mathematical meaning over the
   independently flattened argument."""
import functools
import sys

from cspuz import array as A
from cspuz import constraints as C
from cspuz.expr import Expr, Op, BoolVar, IntVar, BoolExpr, IntExpr

from ..refs.ref_eval import ev, var_ids, IllTyped

_state = None
_orig = {}

SEM = {
    Op.NOT: lambda a: not a, Op.NEG: lambda a: -a,
    Op.AND: lambda a, b: a and b, Op.OR: lambda a, b: a or b, Op.IFF: lambda a, b: a == b, Op.XOR: lambda a, b: a != b,
    Op.IMP: lambda a, b: (not a) or b, Op.IF: lambda c, t, f: t if c else f,
    Op.ADD: lambda a, b: a + b, Op.SUB: lambda a, b: a - b,
    Op.EQ: lambda a, b: a == b, Op.NE: lambda a, b: a != b, Op.LE: lambda a, b: a <= b, Op.LT: lambda a, b: a < b,
    Op.GE: lambda a, b: a >= b, Op.GT: lambda a, b: a > b,
}
BOOL_RESULT = {Op.NOT, Op.AND, Op.OR, Op.IFF, Op.XOR, Op.IMP, Op.EQ, Op.NE, Op.LE, Op.LT, Op.GE, Op.GT}


class State:
    def __init__(self, ctx):
        self.ctx = ctx
        self.fired = 0
        self.vars = {}  # id -> variable object (for domains), filled by collect()


def collect_vars(items, acc):
    """variables (objects) occurring in a list of expression-likes"""
    stack = list(items)
    while stack:
        x = stack.pop()
        if isinstance(x, (BoolVar, IntVar)):
            acc[x.id] = x
        elif isinstance(x, Expr):
            stack.extend(x.operands)
    return acc


def assignments(vars_by_id, rng, k=12, cap=256):
    vs = list(vars_by_id.values())
    doms = [[False, True] if isinstance(v, BoolVar) else list(range(v.lo, v.hi + 1)) for v in vs]
    total = 1
    for d in doms:
        total *= max(1, len(d))
        if total > cap:
            break
    if total <= cap:
        import itertools

        for vals in itertools.product(*doms):
            yield {v.id: x for v, x in zip(vs, vals)}
    else:
        for _ in range(k):
            yield {v.id: rng.choice(d) for v, d in zip(vs, doms)}


def mat(x):
    """-> (for_callee, for_oracle).  The callee must see the SAME kind of object the caller passed (a one-shot iterable stays
    one-shot: a helper that walks its arguments twice must show), the oracle gets an equal, re-walkable structure."""
    if isinstance(x, (Expr, bool, int)) or x is None:
        return x, x
    if isinstance(x, (A.Array1D, A.Array2D)):
        return x, x
    if isinstance(x, tuple):
        pairs = [mat(y) for y in x]
        return tuple(p[0] for p in pairs), tuple(p[1] for p in pairs)
    if isinstance(x, list):
        pairs = [mat(y) for y in x]
        return [p[0] for p in pairs], [p[1] for p in pairs]
    if hasattr(x, "__iter__"):
        if hasattr(x, "__len__") or hasattr(x, "__getitem__"):
            pairs = [mat(y) for y in x]  # re-walkable container of another type (frame, range, ...)
            return x, [p[1] for p in pairs]
        pairs = [mat(y) for y in x]  # generator / map / zip / iterator: consumed here, re-issued as a fresh one-shot generator
        callee_items = [p[0] for p in pairs]
        return (y for y in callee_items), [p[1] for p in pairs]
    return x, x


def adata(arr):
    """Elements of an operand array as its user knows it: `shape` many (the shape is what the array was built with).  An array
    whose store disagrees with its shape is reported - the oracle must not follow the store."""
    d = list(arr.data)
    size = 1
    for t in arr.shape:
        size *= t
    if len(d) != size:
        st = _state
        if st is not None:
            _viol(st, "operand:store-disagrees-with-shape", f"{type(arr).__name__} of shape {tuple(arr.shape)} holds {len(d)} elements",
                  {"class": type(arr).__name__, "shape": list(arr.shape), "held": len(d)})
        d = d[:size]
    return d


def flat(x, out):
    """Independent flattening: lists, tuples, (materialised) generators, arrays, frames."""
    if isinstance(x, (Expr, bool, int)) or x is None:
        out.append(x)
    elif isinstance(x, (A.Array1D, A.Array2D)):
        out.extend(adata(x))
    elif hasattr(x, "__iter__"):
        for y in x:
            flat(y, out)
    else:
        out.append(x)
    return out


def _viol(st, mech, what, w):
    st.fired += 1
    st.ctx.violation(mech, what, w)


def _elementwise(op, shape, operands):
    st = _state
    res = _orig["elementwise"](op, shape, operands)
    if st is None or res is NotImplemented:
        return res
    ctx = st.ctx
    ctx.count("marray.elementwise")
    ctx.count("marray.ew." + op.name)
    w = {"op": op.name, "shape": list(shape), "operands": [type(o).__name__ for o in operands]}
    want_cls = {(1, True): A.BoolArray1D, (1, False): A.IntArray1D, (2, True): A.BoolArray2D, (2, False): A.IntArray2D}[(len(shape), op in BOOL_RESULT)]
    if type(res) is not want_cls or tuple(res.shape) != tuple(shape):
        _viol(st, f"elementwise:class-or-shape:{op.name}", f"result {type(res).__name__}{getattr(res, 'shape', None)}, expected {want_cls.__name__}{tuple(shape)}", w)
        return res
    n = len(res.data)
    cols = []
    for o in operands:
        if isinstance(o, (A.Array1D, A.Array2D)):
            cols.append(adata(o))
        else:
            cols.append([o] * n)
    if any(len(c) != n for c in cols):
        _viol(st, f"elementwise:length:{op.name}", f"result holds {n} elements, operands hold {[len(c) for c in cols]}", w)
        return res
    vars_ = collect_vars([x for c in cols for x in c], {})
    sem = SEM[op]
    try:
        for env in assignments(vars_, ctx.rng, k=6, cap=64):
            for i in range(n):
                try:
                    got = ev(res.data[i], env)
                except KeyError as ke:
                    _viol(st, f"elementwise:foreign-variable:{op.name}", f"element {i} mentions variable id {ke} that no operand contains", w)
                    return res
                want = sem(*[ev(c[i], env) for c in cols])
                if got != want or type(got) is not type(want):
                    w.update({"index": i, "assignment": {str(k): v for k, v in env.items()}, "got": got, "want": want})
                    _viol(st, f"elementwise:denotation:{op.name}", f"element {i} of the result denotes {got}, operands give {want}", w)
                    return res
    except IllTyped:
        ctx.count("marray.illtyped_operands")
    return res


def _agg_check(st, name, args, res, sem, want_kind):
    ctx = st.ctx
    ctx.count("marray.helper." + name)
    items = flat(list(args), [])
    if not items:
        ctx.count("marray.helper_empty." + name)
    if all(isinstance(x, (bool, int)) for x in items) and items:
        ctx.count("marray.helper_constant_only." + name)
    vars_ = collect_vars(items, {})
    w = {"helper": name, "n_items": len(items), "items": [type(x).__name__ for x in items[:12]]}
    if want_kind == "int" and not isinstance(res, (IntExpr, int)) or want_kind == "bool" and not isinstance(res, (BoolExpr, bool)):
        _viol(st, f"helper:result-kind:{name}", f"{name} returned {type(res).__name__}", w)
        return
    try:
        for env in assignments(vars_, ctx.rng, k=8, cap=128):
            vals = [ev(x, env) for x in items]
            want = sem(vals)
            try:
                got = ev(res, env)
            except KeyError as ke:
                _viol(st, f"helper:foreign-variable:{name}", f"{name} mentions variable id {ke} that none of its {len(items)} items contains", w)
                return
            if got != want or type(got) is not type(want):
                w.update({"assignment": {str(k): v for k, v in env.items()}, "got": got, "want": want, "values": vals[:16]})
                _viol(st, f"helper:denotation:{name}", f"{name} denotes {got}, mathematical meaning {want}", w)
                return
    except IllTyped:
        ctx.count("marray.illtyped_operands")


def _mk_helper(name, sem, want_kind):
    def wrapper(*args):
        st = _state
        if st is None:
            return _orig[name](*args)
        pairs = [mat(a) for a in args]
        res = _orig[name](*[p[0] for p in pairs])
        _agg_check(st, name, [p[1] for p in pairs], res, sem, want_kind)
        return res
    return wrapper


def _count(vals):
    for v in vals:
        if type(v) is not bool:
            raise IllTyped("count_true over non-bool")
    return sum(1 for v in vals if v)


def _or(vals):
    for v in vals:
        if type(v) is not bool:
            raise IllTyped()
    return any(vals)


def _and(vals):
    for v in vals:
        if type(v) is not bool:
            raise IllTyped()
    return all(vals)


def _alldiff(vals):
    for v in vals:
        if type(v) is not int:
            raise IllTyped()
    return len(set(vals)) == len(vals)


def _mk_method(cls, mname, hname, sem, want_kind):
    orig = cls.__dict__[mname]

    @functools.wraps(orig)
    def method(self):
        res = orig(self)
        st = _state
        if st is not None:
            _agg_check(st, f"{hname}.method", [adata(self)], res, sem, want_kind)
        return res

    setattr(cls, mname, method)


def _conv2d(self, height, width, op):
    st = _state
    res = _orig["conv2d"](self, height, width, op)
    if st is None:
        return res
    ctx = st.ctx
    ctx.count("marray.conv2d")
    H, W = self.shape
    w = {"shape": [H, W], "window": [height, width], "op": op}
    rh, rw = max(0, H - height + 1), max(0, W - width + 1)
    if not isinstance(res, A.BoolArray2D) or tuple(res.shape) != (rh, rw):
        _viol(st, "conv2d:shape", f"result shape {getattr(res, 'shape', None)}, expected {(rh, rw)}", w)
        return res
    sdata = adata(self)
    vars_ = collect_vars(sdata, {})
    try:
        for env in assignments(vars_, ctx.rng, k=8, cap=128):
            vals = [ev(x, env) for x in sdata]
            for y in range(rh):
                for x in range(rw):
                    win = [vals[(y + dy) * W + (x + dx)] for dy in range(height) for dx in range(width)]
                    want = all(win) if op == "and" else any(win)
                    got = ev(res.data[y * rw + x], env)
                    if got != want:
                        w.update({"at": [y, x], "got": got, "want": want})
                        _viol(st, "conv2d:denotation", f"conv2d element {(y, x)} denotes {got}, window {op} is {want}", w)
                        return res
    except IllTyped:
        pass
    return res


def _mk_neighbors(cls, indices):
    mname = "four_neighbor_indices" if indices else "four_neighbors"
    orig = cls.__dict__[mname]

    @functools.wraps(orig)
    def method(self, y, x=None):
        res = orig(self, y, x)
        st = _state
        if st is not None:
            yy, xx = (y if x is None else (y, x))
            H, W = self.shape
            if isinstance(yy, int) and isinstance(xx, int) and 0 <= yy < H and 0 <= xx < W:
                st.ctx.count("marray." + mname)
                want = [(yy + dy, xx + dx) for dy, dx in ((-1, 0), (1, 0), (0, -1), (0, 1)) if 0 <= yy + dy < H and 0 <= xx + dx < W]
                if indices:
                    got = list(res)
                    ok = sorted(got) == sorted(want) and len(got) == len(set(got))
                else:
                    got = [id(v) for v in res]
                    ok = sorted(got) == sorted(id(self.data[a * W + b]) for a, b in want) and len(got) == len(want)
                if not ok:
                    _viol(st, f"neighbors:{mname}", f"{mname}({yy},{xx}) on shape {(H, W)} is not the set of in-bounds orthogonal neighbours",
                          {"shape": [H, W], "cell": [yy, xx]})
        return res

    setattr(cls, mname, method)


def rebind(orig, new):
    n = 0
    for name, mod in list(sys.modules.items()):
        if name == "cspuz" or name.startswith("cspuz."):
            for attr, val in list(vars(mod).items()):
                if val is orig:
                    setattr(mod, attr, new)
                    n += 1
    return n


def install(ctx):
    global _state
    if not _orig:
        import cspuz.graph  # noqa: F401  (so that its from-imports are rebound too)
        import cspuz.puzzle.util  # noqa: F401

        _orig["elementwise"] = A._elementwise
        rebind(A._elementwise, functools.wraps(A._elementwise)(_elementwise))
        for name, sem, kind in (("count_true", _count, "int"), ("fold_or", _or, "bool"), ("fold_and", _and, "bool"), ("alldifferent", _alldiff, "bool")):
            _orig[name] = getattr(C, name)
            rebind(_orig[name], functools.wraps(_orig[name])(_mk_helper(name, sem, kind)))
        for cls in (A.BoolArray1D, A.BoolArray2D):
            _mk_method(cls, "count_true", "count_true", _count, "int")
            _mk_method(cls, "fold_or", "fold_or", _or, "bool")
            _mk_method(cls, "fold_and", "fold_and", _and, "bool")
        for cls in (A.IntArray1D, A.IntArray2D):
            _mk_method(cls, "alldifferent", "alldifferent", _alldiff, "bool")
        _orig["conv2d"] = A.BoolArray2D.conv2d
        A.BoolArray2D.conv2d = functools.wraps(_orig["conv2d"])(_conv2d)
        for cls in (A.BoolArray2D, A.IntArray2D):
            _mk_neighbors(cls, False)
            _mk_neighbors(cls, True)
    _state = State(ctx)
    return _state


def uninstall():
    global _state
    _state = None
