"""M-SOLVE: runtime monitor on Solver.find_answer / Solver.solve.

Installed on the real class, so it observes every solve whoever issues it
(workload drivers, graph drivers, bundled puzzle solvers, the repository's
own tests).  Postconditions (C01 / C02):

 find_answer -> True : every v.sol has the right Python type, ints are inside
                       their bounds and every posted constraint evaluates to
                       True under ref_eval (checked on EVERY call, linear cost)
 find_answer result  : equals satisfiability according to the oracle
                       (ref_brute when the domain product is small enough,
                       cvc5 through ref_smt when enabled, else unjudged)
 solve               : result equals satisfiability; every answer key's sol is
                       the forced value / None exactly as in the table computed
                       from ALL models (ref_brute), right Python types
"""
import functools

from cspuz.expr import BoolVar, IntVar
from cspuz.solver import Solver

from ..refs import ref_brute, ref_smt
from ..refs.ref_eval import IllTyped, tree_ops

_state = None
_orig = {}


class State:
    def __init__(self, ctx, owner, brute_cap, smt, judge_exc, describe):
        self.ctx = ctx
        self.owner = owner
        self.brute_cap = brute_cap
        self.smt = smt
        self.judge_exc = judge_exc
        self.describe = describe
        self.last = None  # dict describing the last monitored call
        self.op_hist = {}
        self.collect_ops = False
        self.fired = 0
        self.current_solver = None
        self.probe = 0  # >0: after every satisfiable solve(), that many decided and undecided keys are re-examined (see _probe)
        self.probe_owner = None  # property under which probe findings are reported


def render(solver, limit=40):
    """Human-readable program (for witnesses)."""
    out = []
    for v in solver.variables[:limit]:
        out.append(f"b{v.id}" if isinstance(v, BoolVar) else f"i{v.id}[{v.lo},{v.hi}]")
    cs = []
    for c in solver.constraints[:limit]:
        try:
            cs.append(ref_smt.pr(c))
        except Exception:
            cs.append(repr(c))
    return {"vars": out, "constraints": cs, "n_vars": len(solver.variables), "n_constraints": len(solver.constraints)}


def _report(st, mech, what, solver, extra=None):
    st.fired += 1
    w = {"case": st.ctx.current_case, "program": render(solver)}
    if extra:
        w.update(extra)
    if st.ctx.prop == st.owner or st.owner is None:
        st.ctx.violation(mech, what, w)
    else:  # assistant role: the owning property's own check reports it
        st.ctx.count("cross_property_observation:" + mech)
        st.ctx.inconc("assistant M-SOLVE fired: " + mech, w)


def _sat_oracle(st, solver):
    """-> ('sat'|'unsat'|None, how)"""
    vs, cs = solver.variables, solver.constraints
    if ref_brute.domain_product(vs, st.brute_cap) <= st.brute_cap:
        try:
            ok, _ = ref_brute.satisfiable(vs, cs)
            return ("sat" if ok else "unsat"), "brute"
        except ref_brute.TooLarge:
            pass
    if st.smt:
        r = ref_smt.decide(vs, cs, second_opinion=(st.smt == 2))
        return r, "smt"
    return None, "none"


def _backend_name(backend):
    if backend is None:
        from cspuz.configuration import config

        return config.default_backend
    if isinstance(backend, str):
        return backend
    return getattr(backend, "__name__", repr(backend))


def _find_answer(self, backend=None):
    st = _state
    orig = _orig["find_answer"]
    if st is None:
        return orig(self, backend)
    ctx = st.ctx
    bname = _backend_name(backend)
    st.current_solver = self
    try:
        res = orig(self, backend)
    except Exception as e:
        st.current_solver = None
        ctx.count("msolve.find_answer.raised")
        st.last = {"call": "find_answer", "raised": repr(e)}
        if st.judge_exc and not isinstance(e, ImportError):
            try:
                for c in self.constraints:
                    tree_ops(c, {})
                well = _well_typed(self)
            except Exception:
                well = False
            if well:
                _report(st, f"find_answer-raises:{type(e).__name__}",
                        f"find_answer({bname}) raised {e!r} on a well-typed program", self)
        raise
    st.current_solver = None
    ctx.count("msolve.find_answer")
    if st.collect_ops:
        for c in self.constraints:
            tree_ops(c, st.op_hist)
    info = {"call": "find_answer", "result": res, "backend": bname, "oracle": None, "genuine": None}
    st.last = info
    if res is not True and res is not False:
        _report(st, "find_answer-nonbool", f"find_answer returned {res!r}", self)
        return res
    try:
        if res:
            env = {v.id: v.sol for v in self.variables}
            why = ref_brute.check_model(self.variables, self.constraints, env)
            ctx.count("msolve.model_checked")
            info["genuine"] = why is None
            if why is not None:
                _report(st, "model-not-genuine", f"find_answer({bname}) returned True but {why}", self,
                        {"sol": {str(k): v for k, v in list(env.items())[:60]}})
                return res
        verdict, how = _sat_oracle(st, self)
        info["oracle"] = verdict
        info["how"] = how
        if verdict is None:
            ctx.count("msolve.sat_unjudged")
        else:
            ctx.count(f"msolve.sat_judged.{how}.{verdict}")
            if res and verdict == "unsat":
                _report(st, "sat-but-unsat", f"find_answer({bname}) True on an unsatisfiable program", self)
            elif not res and verdict == "sat":
                _report(st, "unsat-but-sat", f"find_answer({bname}) False on a satisfiable program", self)
    except IllTyped:
        ctx.count("msolve.illtyped_program")
    return res


def _well_typed(solver):
    from ..refs.ref_eval import ev

    env = {}
    for v in solver.variables:
        env[v.id] = False if isinstance(v, BoolVar) else v.lo
    try:
        for c in solver.constraints:
            ev(c, env)
    except IllTyped:
        return False
    return True


def _probe(st, solver, keys, backend, bname):
    """Exactness of solve() on programs too large for the exact oracles, relative to the back end's own yes/no answers: a key reported
    with value v must make the program unsatisfiable together with key != v; a key reported None must admit two different values.
    Uses find_answer of the same Solver on the same program plus ONE extra constraint that is removed again; every .sol is restored."""
    ctx = st.ctx
    fa = _orig["find_answer"]
    saved = [v.sol for v in solver.variables]
    rng = ctx.rng
    decided = [v for v in keys if v.sol is not None]
    undecided = [v for v in keys if v.sol is None]
    picks = rng.sample(decided, min(st.probe, len(decided))) + rng.sample(undecided, min(st.probe, len(undecided)))
    reported = {v.id: v.sol for v in keys}
    n0 = len(solver.constraints)

    def ask(extra):
        solver.ensure(extra)
        try:
            return fa(solver, backend)
        finally:
            del solver.constraints[n0:]

    def viol(mech, what, v):
        st.fired += 1
        w = {"case": ctx.current_case, "key": v.id, "reported": repr(reported[v.id]), "n_keys": len(keys), "n_vars": len(solver.variables)}
        if st.probe_owner in (None, ctx.prop):
            ctx.violation(mech, what, w)
        else:
            ctx.count("cross_property_observation:" + mech)
            ctx.inconc("assistant M-SOLVE probe fired: " + mech, w)

    try:
        for v in picks:
            val = reported[v.id]
            ctx.count("msolve.probe_keys")
            if val is not None:
                other = (~v if val else v) if isinstance(val, bool) else (v != val)
                if ask(other):
                    viol("probe:key-overclaimed", f"solve({bname}) reported key {v.id} = {val!r} but the program is satisfiable with a different value "
                         f"({v.sol!r})", v)
                    return
                ctx.count("msolve.probe_decided_confirmed")
            else:
                if not fa(solver, backend):
                    return
                a = v.sol
                other = (~v if a else v) if isinstance(a, bool) else (v != a)
                if not ask(other):
                    viol("probe:key-underclaimed", f"solve({bname}) reported key {v.id} as undetermined but every model gives it {a!r}", v)
                    return
                ctx.count("msolve.probe_undecided_confirmed")
    finally:
        del solver.constraints[n0:]
        for var, x in zip(solver.variables, saved):
            var.sol = x


def _solve(self, backend=None):
    st = _state
    orig = _orig["solve"]
    if st is None:
        return orig(self, backend)
    ctx = st.ctx
    bname = _backend_name(backend)
    # the refinement loop calls csp_solver.solve(), not Solver.find_answer, so no re-entry here
    st.current_solver = self
    try:
        res = orig(self, backend)
    except Exception as e:
        st.current_solver = None
        ctx.count("msolve.solve.raised")
        st.last = {"call": "solve", "raised": repr(e)}
        if st.judge_exc and not isinstance(e, ImportError) and _well_typed(self):
            _report(st, f"solve-raises:{type(e).__name__}", f"solve({bname}) raised {e!r} on a well-typed program", self)
        raise
    st.current_solver = None
    ctx.count("msolve.solve")
    info = {"call": "solve", "result": res, "backend": bname, "judged": False}
    st.last = info
    keys = [v for v, k in zip(self.variables, self.is_answer_key) if k]
    try:
        vs, cs = self.variables, self.constraints
        table = None
        if ref_brute.domain_product(vs, st.brute_cap) <= st.brute_cap:
            try:
                sat, table, nmodels = ref_brute.facts(vs, cs, [v.id for v in keys])
            except ref_brute.TooLarge:
                sat = None
        else:
            sat = None
        if sat is None:
            if st.smt:
                sat, table = _facts_smt(st, self, keys, res)
            if sat is None:
                ctx.count("msolve.solve_unjudged")
                return res
        info["judged"] = True
        ctx.count("msolve.solve_judged")
        if res is not True and res is not False:
            _report(st, "solve-nonbool", f"solve returned {res!r}", self)
            return res
        if res != sat:
            _report(st, "solve-wrong-sat", f"solve({bname}) returned {res} but satisfiable={sat}", self)
            return res
        if not res:
            return res
        for v in keys:
            want = table[v.id]
            got = v.sol
            if want is None:
                ctx.count("msolve.key_undecided")
                if got is not None:
                    _report(st, "key-overclaimed", f"solve({bname}): key {v.id} reported {got!r} but solutions disagree on it",
                            self, {"key": v.id})
                    return res
            else:
                ctx.count("msolve.key_decided")
                if got is None:
                    _report(st, "key-underclaimed", f"solve({bname}): key {v.id} is {want!r} in every solution but reported None",
                            self, {"key": v.id})
                    return res
                if got != want or type(got) is not type(want):
                    _report(st, "key-wrong-value", f"solve({bname}): key {v.id} reported {got!r}, every solution has {want!r}",
                            self, {"key": v.id})
                    return res
    except IllTyped:
        ctx.count("msolve.illtyped_program")
    return res


def _solve_with_probe(self, backend=None):
    res = _solve(self, backend)
    st = _state
    if st is not None and st.probe and res is True:
        keys = [v for v, k in zip(self.variables, self.is_answer_key) if k]
        if keys:
            _probe(st, self, keys, backend, _backend_name(backend))
    return res


def _facts_smt(st, solver, keys, res):
    """Exactness through two SMT queries per key, relative to the reported table."""
    vs, cs = solver.variables, solver.constraints
    sat = ref_smt.decide(vs, cs)
    if sat is None:
        return None, None
    if sat == "unsat":
        return False, None
    table = {}
    for v in keys:
        name = f"b{v.id}" if isinstance(v, BoolVar) else f"i{v.id}"
        got = v.sol
        if got is None:
            # need two models that differ: find one model's value via asking both polarities of a probe
            if isinstance(v, BoolVar):
                a = ref_smt.decide(vs, cs, [name])
                b = ref_smt.decide(vs, cs, [f"(not {name})"])
                if a is None or b is None:
                    return None, None
                table[v.id] = None if (a == "sat" and b == "sat") else (a == "sat")
            else:
                # cannot name the forced value without a model; probe every value of a small domain
                if v.hi - v.lo > 64:
                    return None, None
                sats = []
                for x in range(v.lo, v.hi + 1):
                    r = ref_smt.decide(vs, cs, [f"(= {name} {ref_smt._num(x)})"])
                    if r is None:
                        return None, None
                    if r == "sat":
                        sats.append(x)
                table[v.id] = sats[0] if len(sats) == 1 else None
        else:
            lit = ("true" if got else "false") if isinstance(v, BoolVar) else ref_smt._num(got)
            r = ref_smt.decide(vs, cs, [f"(not (= {name} {lit}))"])
            r2 = ref_smt.decide(vs, cs, [f"(= {name} {lit})"])
            if r is None or r2 is None:
                return None, None
            if r2 == "unsat":
                table[v.id] = ("no-such-value",)  # reported value occurs in no model
            else:
                table[v.id] = got if r == "unsat" else None
    return True, table


class model_sampler:
    """with model_sampler() as ms: inside the block every Solver.solve() call is answered by Solver.find_answer() on the same
    program, after adding 'differs from every model handed out so far on at least one answer key' (keys matched by position: the
    puzzle functions build their programs deterministically).  The caller re-runs the real solve_<puzzle> function and gets a FULL
    model of the real encoding back through the arrays it returns - which an independent rule checker can then accept or refute.
    (find_answer itself stays under M-SOLVE: the model is re-evaluated against the posted constraints as always.)"""

    def __init__(self):
        self.seen = []
        self.mode = None  # None | "dense" | "sparse": ask for a model with more / fewer true boolean keys than any handed out so far

    def __enter__(self):
        import cspuz

        self.cls = cspuz.Solver
        self.saved = self.cls.solve
        sampler = self

        def solve(solver, backend=None):
            keys = [v for v, k in zip(solver.variables, solver.is_answer_key) if k]
            for prev in sampler.seen:
                if len(prev) != len(keys):
                    continue
                lits = []
                for v, val in zip(keys, prev):
                    if isinstance(val, bool):
                        lits.append(~v if val else v)
                    else:
                        lits.append(v != val)
                if lits:
                    solver.ensure(cspuz.fold_or(lits))
            bkeys = [v for v in keys if isinstance(v, BoolVar)]
            counts = [sum(1 for v, val in zip(keys, prev) if isinstance(v, BoolVar) and val is True) for prev in sampler.seen if len(prev) == len(keys)]
            if sampler.mode and bkeys and counts:
                # extremes break different rules: dense models run into 'no 2x2 / not adjacent', sparse ones into 'at least / connected'
                if sampler.mode == "dense":
                    solver.ensure(cspuz.count_true(bkeys) >= max(counts) + 1)
                else:
                    solver.ensure(cspuz.count_true(bkeys) <= min(counts) - 1)
            ok = solver.find_answer(backend)
            if ok:
                sampler.seen.append([v.sol for v in keys])
            return ok

        self.cls.solve = solve
        return self

    def __exit__(self, *a):
        self.cls.solve = self.saved
        return False


def install(ctx, owner="C01", brute_cap=4096, smt=False, judge_exc=False, describe=None):
    global _state
    if not _orig:
        _orig["find_answer"] = Solver.find_answer
        _orig["solve"] = Solver.solve
        Solver.find_answer = functools.wraps(_orig["find_answer"])(_find_answer)
        Solver.solve = functools.wraps(_orig["solve"])(_solve_with_probe)
    _state = State(ctx, owner, brute_cap, smt, judge_exc, describe)
    return _state


def uninstall():
    global _state
    _state = None


def state():
    return _state
