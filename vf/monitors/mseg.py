"""M-SEG: class invariant of SegmentationBuilder2D checked at every hook (C18).

Wrappers on initial() and copy_with_update(): every returned value must be a
partition of the height x width board into orthogonally connected blocks with
block count and block sizes inside the configured bounds; the value an update
is applied to must be deep-equal to its snapshot afterwards; every value ever
produced is fingerprinted and re-verified at the end of the history."""
import copy
import functools

from cspuz.generator.segmentation import SegmentationBuilder2D

_state = None
_orig = {}


class State:
    def __init__(self, ctx):
        self.ctx = ctx
        self.fired = 0
        self.produced = []  # (value object, fingerprint)
        self.kinds = {}


def fingerprint(v):
    return repr(v)


def bounds_of(b):
    return dict(min_num_blocks=b.min_num_blocks, max_num_blocks=b.max_num_blocks, min_block_size=b.min_block_size,
                max_block_size=b.max_block_size, height=b.height, width=b.width, allow_unmet_first=b.allow_unmet_constraints_first)


def covered_cells(b):
    """The area a builder works on: the whole board, or - when it was started from initial_blocks that leave cells out (boards with
    holes; the builder has explicit code for uncovered cells) - the cells of those blocks."""
    h, w = b.height, b.width
    ib = getattr(b, "initial_blocks", None)
    if ib is not None:
        cov = {tuple(c) for bl in ib for c in bl}
        if len(cov) != h * w:
            return cov
    return {(y, x) for y in range(h) for x in range(w)}


def partition_errors(b, v, check_bounds=True):
    """None if v is a valid value of builder b, else (mechanism, text)."""
    h, w = b.height, b.width
    if not isinstance(v, list) or any(not isinstance(bl, list) for bl in v):
        return ("not-a-list-of-blocks", f"value is {type(v).__name__}")
    seen = {}
    for i, bl in enumerate(v):
        if len(bl) == 0:
            return ("empty-block", f"block {i} is empty")
        for c in bl:
            if not (isinstance(c, tuple) and len(c) == 2 and 0 <= c[0] < h and 0 <= c[1] < w):
                return ("cell-off-board", f"block {i} contains {c!r}")
            if c in seen:
                return ("cell-twice", f"cell {c} is in blocks {seen[c]} and {i}")
            seen[c] = i
    target = covered_cells(b)
    if set(seen) != target:
        missing, extra = len(target - set(seen)), len(set(seen) - target)
        if extra:
            return ("cells-outside-the-covered-area", f"{extra} cells outside the area the builder was started on belong to a block")
        return ("cells-missing", f"{missing} cells belong to no block")
    for i, bl in enumerate(v):
        s = set(bl)
        stack = [bl[0]]
        vis = {bl[0]}
        while stack:
            y, x = stack.pop()
            for d in ((y + 1, x), (y - 1, x), (y, x + 1), (y, x - 1)):
                if d in s and d not in vis:
                    vis.add(d)
                    stack.append(d)
        if len(vis) != len(s):
            return ("block-disconnected", f"block {i} {sorted(bl)} is not orthogonally connected")
    if check_bounds:
        if not (b.min_num_blocks <= len(v) <= b.max_num_blocks):
            return ("block-count-out-of-bounds", f"{len(v)} blocks, bounds [{b.min_num_blocks}, {b.max_num_blocks}]")
        for i, bl in enumerate(v):
            if not (b.min_block_size <= len(bl) <= b.max_block_size):
                return ("block-size-out-of-bounds", f"block {i} has {len(bl)} cells, bounds [{b.min_block_size}, {b.max_block_size}]")
    return None


def update_kind(update):
    ex, ap = update
    return {(2, 1): "merge", (1, 2): "split", (2, 2): "move"}.get((len(ex), len(ap)), f"other{len(ex)}-{len(ap)}")


def _viol(st, mech, what, b, extra=None):
    st.fired += 1
    w = {"builder": bounds_of(b), "case": st.ctx.current_case}
    if extra:
        w.update(extra)
    st.ctx.violation(mech, what, w)


def _initial(self):
    st = _state
    res = _orig["initial"](self)
    if st is not None:
        st.ctx.count("mseg.initial")
        err = partition_errors(self, res, check_bounds=not self.allow_unmet_constraints_first)
        if err:
            _viol(st, "initial:" + err[0], "initial(): " + err[1], self, {"value": repr(res)[:500]})
        st.produced.append((res, fingerprint(res), self))
    return res


def _copy_with_update(self, previous, update):
    st = _state
    if st is None:
        return _orig["copy_with_update"](self, previous, update)
    snap = copy.deepcopy(previous)
    prev_ok = partition_errors(self, previous, check_bounds=True) is None
    res = _orig["copy_with_update"](self, previous, update)
    ctx = st.ctx
    ctx.count("mseg.copy_with_update")
    kind = update_kind(update)
    ctx.count("mseg.kind." + kind)
    if previous != snap:
        _viol(st, "update-mutates-previous", f"copy_with_update ({kind}) modified the value it was applied to", self,
              {"before": repr(snap)[:400], "after": repr(previous)[:400]})
    # bounds are judged when the previous value was inside them (the walk from an unmet initial value is exempt by design)
    err = partition_errors(self, res, check_bounds=prev_ok)
    if err:
        _viol(st, f"update:{err[0]}:{kind}", f"copy_with_update ({kind}): {err[1]}", self,
              {"previous": repr(snap)[:400], "update": repr(update)[:300], "value": repr(res)[:400]})
    st.produced.append((res, fingerprint(res), self))
    if len(st.produced) > 5000:
        verify_history(st)
    return res


def verify_history(st=None):
    """Every value ever produced must still be what it was when it was produced."""
    st = st or _state
    if st is None:
        return
    for v, fp, b in st.produced:
        st.ctx.count("mseg.history_reverified")
        if fingerprint(v) != fp:
            _viol(st, "earlier-value-mutated", "a value produced earlier in the history was modified in place later", b,
                  {"was": fp[:400], "now": fingerprint(v)[:400]})
            break
    st.produced = []


def install(ctx):
    global _state
    if not _orig:
        _orig["initial"] = SegmentationBuilder2D.initial
        _orig["copy_with_update"] = SegmentationBuilder2D.copy_with_update
        SegmentationBuilder2D.initial = functools.wraps(_orig["initial"])(_initial)
        SegmentationBuilder2D.copy_with_update = functools.wraps(_orig["copy_with_update"])(_copy_with_update)
    _state = State(ctx)
    return _state


def uninstall():
    global _state
    if _state is not None:
        verify_history(_state)
    _state = None
