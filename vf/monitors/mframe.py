"""M-FRAME: runtime monitor on BoolGridFrame / BoolInnerGridFrame accessors and on
graph._from_grid_frame (C14).  Every call is compared with the lattice model
(refs/lattice): the variable OBJECTS returned must be exactly the ones sitting
on the model's segment(s); out-of-frame coordinates must raise IndexError."""
import functools

from cspuz import grid_frame as GF
from cspuz import graph as GR

from ..refs import lattice as L

_state = None
_orig = {}


class State:
    def __init__(self, ctx):
        self.ctx = ctx
        self.fired = 0


def seg_of_var(frame):
    """id(variable) -> segment, read from the documented arrays horizontal[y, x] / vertical[y, x] via .data (row-major)."""
    h, w = frame.height, frame.width
    m = {}
    hd, vd = frame.horizontal.data, frame.vertical.data
    for y in range(h + 1):
        for x in range(w):
            m[id(hd[y * w + x])] = ("h", y, x)
    for y in range(h):
        for x in range(w + 1):
            m[id(vd[y * (w + 1) + x])] = ("v", y, x)
    return m


def _viol(st, mech, what, frame, extra):
    st.fired += 1
    w = {"frame": [frame.height, frame.width]}
    w.update(extra)
    st.ctx.violation(mech, what, w)


def _coords(args):
    if len(args) == 1:
        y, x = args[0]
    else:
        y, x = args
    return y, x


def _getitem(self, item):
    st = _state
    if st is None:
        return _orig["getitem"](self, item)
    ctx = st.ctx
    ctx.count("mframe.getitem")
    try:
        res = _orig["getitem"](self, item)
        exc = None
    except Exception as e:
        res, exc = None, e
    try:
        Y, X = item
        ok_key = isinstance(Y, int) and isinstance(X, int)
    except Exception:
        ok_key = False
    if ok_key:
        want = L.seg_at_doubled(self.height, self.width, Y, X)
        if want is None:
            ctx.count("mframe.getitem_outside")
            if not isinstance(exc, IndexError):
                _viol(st, "frame:getitem-no-indexerror", f"coordinate {item} is not a segment of the frame but no IndexError ({exc!r})",
                      self, {"item": [Y, X]})
        else:
            if exc is not None:
                _viol(st, f"frame:getitem-raises:{type(exc).__name__}", f"valid doubled coordinate {item} raised {exc!r}", self, {"item": [Y, X]})
            elif seg_of_var(self).get(id(res)) != want:
                _viol(st, "frame:getitem-wrong-edge", f"doubled coordinate {item} returned the variable of {seg_of_var(self).get(id(res))}, "
                      f"geometry says {want}", self, {"item": [Y, X]})
    if exc is not None:
        raise exc
    return res


def _neighbors(kind):
    def wrapper(self, *args, **kw):
        st = _state
        orig = _orig[kind]
        if st is None:
            return orig(self, *args, **kw)
        ctx = st.ctx
        ctx.count("mframe." + kind)
        try:
            res = orig(self, *args, **kw)
            exc = None
        except Exception as e:
            res, exc = None, e
        try:
            y, x = _coords(args) if not kw else (kw.get("y", args[0] if args else None), kw.get("x"))
            okk = isinstance(y, int) and isinstance(x, int)
        except Exception:
            okk = False
        if okk:
            h, w = self.height, self.width
            if kind == "cell_neighbors":
                inside = 0 <= y < h and 0 <= x < w
                want = L.cell_sides(y, x) if inside else None
            else:
                inside = 0 <= y <= h and 0 <= x <= w
                want = L.point_segments(h, w, y, x) if inside else None
            if want is None:
                ctx.count("mframe.neighbors_outside")
                if not isinstance(exc, IndexError):
                    _viol(st, f"frame:{kind}-no-indexerror", f"{kind}({y},{x}) is outside the frame but no IndexError ({exc!r})", self,
                          {"args": [y, x]})
            elif exc is not None:
                _viol(st, f"frame:{kind}-raises:{type(exc).__name__}", f"{kind}({y},{x}) raised {exc!r}", self, {"args": [y, x]})
            else:
                m = seg_of_var(self)
                got = [m.get(id(v)) for v in res]
                if sorted(map(str, got)) != sorted(map(str, want)) or len(got) != len(want):
                    _viol(st, f"frame:{kind}-wrong-edges", f"{kind}({y},{x}) returned {got}, geometry says {want}", self, {"args": [y, x]})
        if exc is not None:
            raise exc
        return res
    return wrapper


def _all_edges(self):
    st = _state
    res = _orig["all_edges"](self)
    if st is not None:
        st.ctx.count("mframe.all_edges")
        m = seg_of_var(self)
        got = [m.get(id(v)) for v in res]
        if got != L.segments(self.height, self.width):
            _viol(st, "frame:all_edges-order", "all_edges() is not every segment once, horizontals then verticals row-major", self, {"got": got[:12]})
    return res


def _iter(self):
    st = _state
    it = _orig["iter"](self)
    if st is None:
        return it
    items = list(it)
    st.ctx.count("mframe.iter")
    m = seg_of_var(self)
    got = [m.get(id(v)) for v in items]
    if got != L.segments(self.height, self.width):
        _viol(st, "frame:iter-order", "iteration is not every segment once, horizontals then verticals row-major", self, {"got": got[:12]})
    return iter(items)


def _dual(self):
    st = _state
    res = _orig["dual"](self)
    if st is not None:
        st.ctx.count("mframe.dual")
        bad = None
        if not isinstance(res, GF.BoolInnerGridFrame):
            bad = "dual() is not a BoolInnerGridFrame"
        elif (res.height, res.width) != (self.height + 1, self.width + 1):
            bad = f"dual size {(res.height, res.width)} != points {(self.height + 1, self.width + 1)}"
        elif res.horizontal is not self.vertical or res.vertical is not self.horizontal:
            bad = "dual() does not exchange horizontal/vertical arrays (same variables on the same segments)"
        else:
            back = _orig["idual"](res)
            if (back.height, back.width) != (self.height, self.width) or back.horizontal is not self.horizontal or back.vertical is not self.vertical:
                bad = "dual of dual is not the original frame"
        if bad:
            _viol(st, "frame:dual", bad, self, {})
    return res


def _idual(self):
    st = _state
    res = _orig["idual"](self)
    if st is not None:
        st.ctx.count("mframe.inner_dual")
        bad = None
        if not isinstance(res, GF.BoolGridFrame) or (res.height, res.width) != (self.height - 1, self.width - 1):
            bad = "inner dual has the wrong class/size"
        elif res.horizontal is not self.vertical or res.vertical is not self.horizontal:
            bad = "inner dual does not exchange horizontal/vertical"
        if bad:
            st.fired += 1
            st.ctx.violation("frame:inner-dual", bad, {"inner": [self.height, self.width]})
    return res


def _from_grid_frame(grid_frame):
    st = _state
    edges, g = _orig["from_grid_frame"](grid_frame)
    if st is not None:
        st.ctx.count("mframe.from_grid_frame")
        h, w = grid_frame.height, grid_frame.width
        m = seg_of_var(grid_frame)
        bad = None
        if g.num_vertices != (h + 1) * (w + 1):
            bad = f"inferred graph has {g.num_vertices} vertices for {(h + 1) * (w + 1)} lattice points"
        elif len(edges) != len(g.edges) or len(edges) != len(L.segments(h, w)):
            bad = "edge list / graph edge count differs from the number of segments"
        else:
            seen = set()
            for k, (var, (a, b)) in enumerate(zip(edges, g.edges)):
                sg = m.get(id(var))
                if sg is None or sg in seen:
                    bad = f"edges[{k}] is not a (fresh) frame variable"
                    break
                seen.add(sg)
                p, q = L.ends(sg)
                if {a, b} != {L.point_id(w, p), L.point_id(w, q)}:
                    bad = f"edges[{k}] sits on segment {sg} but graph edge {k} joins points {a},{b}"
                    break
        if bad:
            _viol(st, "frame:inferred-graph", bad, grid_frame, {})
    return edges, g


def install(ctx):
    global _state
    if not _orig:
        F = GF.BoolGridFrame
        _orig.update(getitem=F.__getitem__, cell_neighbors=F.cell_neighbors, vertex_neighbors=F.vertex_neighbors, all_edges=F.all_edges,
                     iter=F.__iter__, dual=F.dual, idual=GF.BoolInnerGridFrame.dual, from_grid_frame=GR._from_grid_frame)
        F.__getitem__ = functools.wraps(_orig["getitem"])(_getitem)
        F.cell_neighbors = functools.wraps(_orig["cell_neighbors"])(_neighbors("cell_neighbors"))
        F.vertex_neighbors = functools.wraps(_orig["vertex_neighbors"])(_neighbors("vertex_neighbors"))
        F.all_edges = functools.wraps(_orig["all_edges"])(_all_edges)
        F.__iter__ = functools.wraps(_orig["iter"])(_iter)
        F.dual = functools.wraps(_orig["dual"])(_dual)
        GF.BoolInnerGridFrame.dual = functools.wraps(_orig["idual"])(_idual)
        GR._from_grid_frame = functools.wraps(_orig["from_grid_frame"])(_from_grid_frame)
    _state = State(ctx)
    return _state


def uninstall():
    global _state
    _state = None
