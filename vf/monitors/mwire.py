"""M-WIRE: monitor at the client boundary of the text-protocol backends (C03).

Attached to the real classes of cspuz.backend.sugar_like:
 * every _call_solver (the five real classes and the in-process stand-in
   subclasses) records {text, reply};
 * SugarLikeBackend.solve / solve_irrefutably are wrapped; when they return the
   checker compares, for that one exchange,
     1. the text is a well-formed CSP description (ref_sugar static checker)
     2. declarations == the Solver's variables with their domains
     3. constraint line i denotes posted constraint i (sexp_eval vs ref_eval on
        all assignments of the variables involved, or a sample when large)
     4. the '#' key line names exactly the registered keys (deduction mode only)
     5. the reply is reflected into sol: right variable, right value, right type
"""
import functools
import itertools

from cspuz.backend import sugar_like
from cspuz.expr import BoolVar, IntVar

from ..refs import ref_sugar
from ..refs.ref_eval import ev, var_ids, IllTyped
from . import msolve

_state = None
_orig = {}


class State:
    def __init__(self, ctx):
        self.ctx = ctx
        self.expect = None  # explicit (variables, constraints, keymask) for directly driven backends
        self.expect_key_names = None  # names of the keys the DRIVER registered (independent of Solver.is_answer_key)
        self.events = 0
        self.fired = 0
        self.last_event = None


def name_of(v):
    return ("b" if isinstance(v, BoolVar) else "i") + str(v.id)


def _viol(st, mech, what, backend, text, reply, extra=None):
    st.fired += 1
    w = {"case": st.ctx.current_case, "backend": type(backend).__name__, "text": (text or "")[:3000], "reply": (reply or "")[:1500]}
    if extra:
        w.update(extra)
    st.ctx.violation(mech, what, w)


def _expected(st, backend):
    ms = msolve.state()
    if ms is not None and getattr(ms, "current_solver", None) is not None and ms.current_solver.variables is backend.variables:
        s = ms.current_solver
        return list(s.variables), list(s.constraints), list(s.is_answer_key), True
    if st.expect is not None:
        v, c, k = st.expect
        return list(v), list(c), list(k), False
    return None


_verified = set()


def skey(e):
    """Structural key of a posted expression (for the memo of already compared (line, expression) pairs)."""
    if isinstance(e, (bool, int)) or e is None:
        return repr(e)
    if isinstance(e, (BoolVar, IntVar)):
        return name_of(e)
    return "(" + e.op.name + " " + " ".join(skey(x) for x in e.operands) + ")"


def denote_diff(term, expr, byname, rng, cap=128):
    """None if term and expr agree on every tried assignment, else a witness assignment."""
    names = sorted(ref_sugar.names_in(term, set()) & set(byname))
    ids = var_ids(expr) if not isinstance(expr, bool) else set()
    for v in byname.values():
        if v.id in ids and name_of(v) not in names:
            names.append(name_of(v))
    vs = [byname[n] for n in names]
    doms = [[False, True] if isinstance(v, BoolVar) else range(v.lo, v.hi + 1) for v in vs]
    total = 1
    for d in doms:
        total *= len(d)
        if total > cap:
            break
    if total <= cap:
        assignments = itertools.product(*doms)
        exhaustive = True
    else:
        exhaustive = False

        def sample():
            yield tuple(d[0] for d in doms)
            yield tuple(d[-1] for d in doms)
            for _ in range(40):
                yield tuple(d[rng.randrange(len(d))] for d in doms)
        assignments = sample()
    for vals in assignments:
        env_n = dict(zip(names, vals))
        env_i = {v.id: x for v, x in zip(vs, vals)}
        a = ref_sugar.sexp_eval(term, env_n)
        b = ev(expr, env_i)
        if a != b or type(a) is not type(b):
            return {"assignment": {k: v for k, v in env_n.items()}, "text_value": a, "posted_value": b}
    return None


def check_exchange(st, backend, mode, ret, keymask_arg=None):
    ctx = st.ctx
    last = getattr(backend, "_wire_last", None)
    if last is None:
        ctx.count("mwire.no_exchange")
        return
    text, reply = last
    st.events += 1
    ctx.count("mwire.exchanges")
    ctx.count("mwire.mode." + mode)
    ctx.count("mwire.class." + getattr(type(backend), "_standin_base", type(backend).__name__))
    exp = _expected(st, backend)
    # 1 ---- well-formed
    try:
        p = ref_sugar.parse(text)
    except ref_sugar.WireError as e:
        _viol(st, "text-malformed", f"emitted CSP text is not well-formed: {e}", backend, text, reply)
        return
    if exp is None:
        ctx.count("mwire.unpaired")
        return
    variables, constraints, keymask, via_solver = exp
    if keymask_arg is not None and not via_solver:
        keymask = list(keymask_arg)
    # 2 ---- declarations
    want = sorted(("bool", name_of(v), None, None) if isinstance(v, BoolVar) else ("int", name_of(v), v.lo, v.hi) for v in variables)
    got = sorted(p.decls, key=lambda d: (d[0], d[1]))
    if sorted(want, key=lambda d: (d[0], d[1])) != got:
        _viol(st, "declarations-differ", "declared variables/domains in the text differ from the Solver's", backend, text, reply,
              {"want": want[:20], "got": got[:20]})
        return
    byname = {name_of(v): v for v in variables}
    # 3 ---- denotation, line by line
    if len(p.constraints) < len(constraints):
        _viol(st, "constraints-missing", f"{len(constraints)} constraints posted, {len(p.constraints)} lines emitted", backend, text, reply)
        return
    if len(p.constraints) > len(constraints):
        ctx.count("mwire.extra_lines", len(p.constraints) - len(constraints))
        if mode == "deduction" or not via_solver:
            _viol(st, "constraints-extra", "more constraint lines than posted constraints", backend, text, reply)
            return
    try:
        for k, (term, expr) in enumerate(zip(p.constraints, constraints)):
            line = p.lines[len(p.decls) + k] if len(p.lines) > len(p.decls) + k else None
            memo = (line, skey(expr), tuple((n, byname[n].lo, byname[n].hi) for n in ref_sugar.names_in(term, set()) if n in byname and isinstance(byname[n], IntVar)))
            if line is not None and memo in _verified:
                ctx.count("mwire.lines_memo_hit")
                continue
            d = denote_diff(term, expr, byname, ctx.rng)
            if d is None and line is not None and len(_verified) < 200000:
                _verified.add(memo)
            ctx.count("mwire.lines_compared")
            if d is not None:
                _viol(st, "denotation-differs", f"constraint line {k} does not denote posted constraint {k}", backend, text, reply,
                      {"line": p.lines[len(p.decls) + k] if len(p.lines) > len(p.decls) + k else None, **d})
                return
    except IllTyped:
        ctx.count("mwire.illtyped_program")
        return
    # 4 ---- keys
    if mode == "finder":
        if p.keys is not None:
            _viol(st, "keyline-in-finder-mode", "a '#' answer-key line was sent in answer-finder mode", backend, text, reply)
            return
    else:
        wantk = sorted(name_of(v) for v, k in zip(variables, keymask) if k)
        if st.expect_key_names is not None and via_solver:
            wantk = sorted(st.expect_key_names)
        if p.keys is None or sorted(p.keys) != wantk:
            _viol(st, "keyline-differs", f"key line {p.keys} != registered keys {wantk}", backend, text, reply)
            return
    # 5 ---- reply reflected into sol
    lines = reply.split("\n")
    if mode == "finder":
        sat = "UNSATISFIABLE" not in lines[0]
        assign = {}
        if sat:
            for ln in lines[1:]:
                if ln == "a" or ln == "":
                    break
                nm, val = ln[2:].split("\t")
                assign[nm] = val
    else:
        sat = lines[0].strip() != "unsat"
        assign = {}
        if sat:
            for ln in lines[1:]:
                if ln == "":
                    break
                nm, val = ln.split(" ")
                assign[nm] = val
    if ret is not sat:
        _viol(st, "reply-verdict-misread", f"reply says sat={sat} but the backend returned {ret!r}", backend, text, reply)
        return
    for v in variables:
        raw = assign.get(name_of(v)) if sat else None
        if raw is None:
            want_v = None
        elif isinstance(v, BoolVar):
            want_v = (raw == "true")
        else:
            want_v = int(raw)
        gotv = v.sol
        if gotv != want_v or type(gotv) is not type(want_v):
            _viol(st, "reply-misreflected", f"{name_of(v)}: reply says {raw!r}, sol is {gotv!r}", backend, text, reply)
            return
    ctx.count("mwire.replies_checked")
    ctx.count("mwire.reply." + ("sat" if sat else "unsat"))


def _wrap_call(cls):
    orig = cls.__dict__["_call_solver"]

    @functools.wraps(orig)
    def _call_solver(self, csp_description):
        reply = orig(self, csp_description)
        self._wire_last = (csp_description, reply)
        return reply

    cls._call_solver = _call_solver
    return orig


def _solve(self):
    st = _state
    if st is None:
        return _orig["solve"](self)
    self._wire_last = None
    try:
        ret = _orig["solve"](self)
    except ref_sugar.WireError as e:
        _viol(st, "text-malformed", f"emitted CSP text is not well-formed: {e}", self, getattr(self, "_wire_text", None), None)
        raise
    check_exchange(st, self, "finder", ret)
    return ret


def _solve_irrefutably(self, is_answer_key):
    st = _state
    if st is None:
        return _orig["solve_irrefutably"](self, is_answer_key)
    self._wire_last = None
    try:
        ret = _orig["solve_irrefutably"](self, is_answer_key)
    except ref_sugar.WireError as e:
        _viol(st, "text-malformed", f"emitted CSP text is not well-formed: {e}", self, getattr(self, "_wire_text", None), None)
        raise
    check_exchange(st, self, "deduction", ret, keymask_arg=is_answer_key)
    return ret


def install(ctx):
    global _state
    if not _orig:
        for cls in (sugar_like.SugarBackend, sugar_like.SugarExtendedBackend, sugar_like.CSugarBackend,
                    sugar_like.EnigmaCSPBackend, sugar_like.CspuzCoreBackend):
            _orig[cls.__name__] = _wrap_call(cls)
        _orig["solve"] = sugar_like.SugarLikeBackend.solve
        _orig["solve_irrefutably"] = sugar_like.SugarLikeBackend.solve_irrefutably
        sugar_like.SugarLikeBackend.solve = functools.wraps(_orig["solve"])(_solve)
        sugar_like.SugarLikeBackend.solve_irrefutably = functools.wraps(_orig["solve_irrefutably"])(_solve_irrefutably)
    _state = State(ctx)
    return _state


def uninstall():
    global _state
    _state = None


def state():
    return _state
