"""In-process attachment of the protocol stand-in (refs/ref_sugar) to the REAL
backend classes of cspuz.backend.sugar_like: a subclass that overrides nothing
but _call_solver.  Everything else (text emission, reply parsing, sol
assignment, the refinement loop in Solver.solve) is the repository's code.

Every call is logged as a wire event {backend class, text, reply} (M-WIRE)."""
from cspuz.backend import sugar_like

from ..refs import ref_sugar

BASES = {
    "sugar": sugar_like.SugarBackend,
    "sugar_extended": sugar_like.SugarExtendedBackend,
    "csugar": sugar_like.CSugarBackend,
    "enigma_csp": sugar_like.EnigmaCSPBackend,
    "cspuz_core": sugar_like.CspuzCoreBackend,
}


class WireLog:
    def __init__(self):
        self.events = []

    def clear(self):
        self.events = []


def make(base_name, log, chooser_factory=None, reply_hook=None):
    base = BASES[base_name]

    class StandIn(base):  # type: ignore
        _standin_base = base_name

        def __init__(self, variables):
            super().__init__(variables)
            self._chooser = chooser_factory() if chooser_factory else None

        def _call_solver(self, csp_description):
            ev = {"backend": base_name, "text": csp_description, "reply": None, "error": None, "obj": self}
            log.events.append(ev)
            self._wire_text = csp_description
            try:
                reply = ref_sugar.answer(csp_description, self._chooser)
            except ref_sugar.WireError as e:
                ev["error"] = str(e)
                raise
            if reply_hook:
                reply = reply_hook(reply)
            ev["reply"] = reply
            self._wire_last = (csp_description, reply)
            return reply

    StandIn.__name__ = f"StandIn_{base_name}"
    return StandIn
