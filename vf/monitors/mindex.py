"""M-INDEX: runtime monitor on __getitem__ / flatten / reshape of the four array
classes (C13).  Every call is replayed on the equivalent Python list of lists
(row-major, built from the array's own data) using only built-in list
semantics; identity and order of the returned elements, resulting class and
shape, and IndexError <=> list IndexError must agree."""
import collections.abc
import functools

from cspuz import array as A

_state = None
_orig = {}


class State:
    def __init__(self, ctx):
        self.ctx = ctx
        self.fired = 0
        self.last_verdict = None


class Unjudged(Exception):
    pass


def rows_of(arr):
    h, w = arr.shape
    return [arr.data[y * w:(y + 1) * w] for y in range(h)]


def model_2d(rows, width, key):
    """-> ('elem', x) | ('1d', [..]) | ('2d', [[..]..], (h, w or None)); raises IndexError like nested lists do."""
    if not isinstance(key, tuple) and isinstance(key, collections.abc.Iterable):
        out = []
        for idx in key:
            if not isinstance(idx, tuple) or len(idx) != 2 or not all(isinstance(t, int) for t in idx):
                raise Unjudged("malformed coordinate list")
            y, x = idx
            out.append(rows[y][x])
        return ("1d", out)
    if isinstance(key, int):
        return ("1d", list(rows[key]))
    if isinstance(key, slice):
        _chk_step(key)
        sel = rows[key]
        return ("2d", [list(r) for r in sel], (len(sel), width))
    if not (isinstance(key, tuple) and len(key) == 2):
        raise Unjudged("unsupported key")
    ky, kx = key
    for k in (ky, kx):
        if isinstance(k, slice):
            _chk_step(k)
        elif not isinstance(k, int):
            raise Unjudged("unsupported key component")
    if isinstance(ky, int) and isinstance(kx, int):
        return ("elem", rows[ky][kx])
    if isinstance(ky, int):
        return ("1d", rows[ky][kx])
    sel = rows[ky]
    if isinstance(kx, int):
        if not sel:
            # the list model never looks at the column when no row is selected: not judged (DESIGN.md C13)
            if not (-width <= kx < width):
                raise Unjudged("empty row selection with out-of-range column")
        return ("1d", [r[kx] for r in sel])
    sub = [r[kx] for r in sel]
    wsel = len(range(*kx.indices(width)))
    return ("2d", sub, (len(sel), wsel))


def _chk_step(sl):
    if sl.step == 0:
        raise Unjudged("step 0 (lists raise ValueError; the statement speaks of IndexError only)")
    for t in (sl.start, sl.stop, sl.step):
        if t is not None and not isinstance(t, int):
            raise Unjudged("non-int slice component")


def describe_key(key):
    def one(k):
        if isinstance(k, slice):
            return ["slice", k.start, k.stop, k.step]
        if isinstance(k, tuple):
            return ["tuple"] + [one(t) for t in k]
        if isinstance(k, int):
            return k
        if isinstance(k, list):
            return ["list"] + [one(t) for t in k]
        return repr(k)
    return one(key)


def classify(key):
    """Mechanism-level class of a key (for known-finding predicates)."""
    parts = key if isinstance(key, tuple) else (key,)
    neg = any(isinstance(k, slice) and k.step is not None and k.step < 0 for k in parts)
    if not isinstance(key, tuple) and isinstance(key, collections.abc.Iterable):
        return "coordinate-list"
    return "negative-step-slice" if neg else ("slice" if any(isinstance(k, slice) for k in parts) else "integer")


def _check_2d(st, cls_name, arr, key, result, exc):
    ctx = st.ctx
    ctx.count("mindex.getitem2d")
    try:
        try:
            want = model_2d(rows_of(arr), arr.shape[1], key)
            wexc = None
        except IndexError:
            want, wexc = None, "IndexError"
    except Unjudged as u:
        ctx.count("mindex.unjudged")
        st.last_verdict = "unjudged"
        return
    except TypeError:
        ctx.count("mindex.unjudged")
        st.last_verdict = "unjudged"
        return
    st.last_verdict = "judged"
    w = {"class": cls_name, "shape": list(arr.shape), "key": describe_key(key)}
    kc = classify(key)
    if wexc:
        ctx.count("mindex.model_indexerror")
        if exc is None:
            st.fired += 1
            ctx.violation(f"index:no-indexerror:{kc}", "list indexing raises IndexError but the array returned a value", w)
        elif not isinstance(exc, IndexError):
            st.fired += 1
            ctx.violation(f"index:wrong-exception:{type(exc).__name__}:{kc}", f"list indexing raises IndexError, array raised {exc!r}", w)
        return
    if exc is not None:
        st.fired += 1
        if isinstance(exc, IndexError):
            ctx.violation(f"index:spurious-indexerror:{kc}", f"list indexing succeeds but the array raised {exc!r}", w)
        else:
            ctx.violation(f"index:raises:{type(exc).__name__}:{kc}", f"list indexing succeeds but the array raised {exc!r}", w)
        return
    kind = want[0]
    elem_cls = A.BoolArray1D if cls_name.startswith("Bool") else A.IntArray1D
    arr2_cls = A.BoolArray2D if cls_name.startswith("Bool") else A.IntArray2D
    bad = None
    if kind == "elem":
        if result is not want[1]:
            bad = "wrong element"
    elif kind == "1d":
        if not isinstance(result, elem_cls):
            bad = f"result class {type(result).__name__}, expected {elem_cls.__name__}"
        elif len(result.data) != len(want[1]) or any(a is not b for a, b in zip(result.data, want[1])) or result.shape != (len(want[1]),):
            bad = "wrong elements/order"
    else:
        flat = [x for r in want[1] for x in r]
        hh, ww = want[2]
        if not isinstance(result, arr2_cls):
            bad = f"result class {type(result).__name__}, expected {arr2_cls.__name__}"
        elif len(result.data) != len(flat) or any(a is not b for a, b in zip(result.data, flat)):
            bad = "wrong elements/order"
        elif result.shape[0] != hh or (hh > 0 and result.shape[1] != ww):
            bad = f"shape {result.shape}, expected {(hh, ww)}"
    if bad:
        st.fired += 1
        ctx.violation(f"index:wrong-selection:{kc}", bad, w)


def _check_1d(st, cls_name, arr, key, result, exc):
    ctx = st.ctx
    ctx.count("mindex.getitem1d")
    lst = list(arr.data)
    if isinstance(key, slice):
        if key.step == 0:
            ctx.count("mindex.unjudged")
            return
    elif not isinstance(key, int):
        ctx.count("mindex.unjudged")
        return
    try:
        want = lst[key]
        wexc = None
    except IndexError:
        want, wexc = None, True
    except TypeError:
        ctx.count("mindex.unjudged")
        return
    w = {"class": cls_name, "shape": list(arr.shape), "key": describe_key(key)}
    kc = classify(key)
    if wexc:
        if not isinstance(exc, IndexError):
            st.fired += 1
            ctx.violation(f"index1d:no-indexerror:{kc}", f"list raises IndexError, array gave {exc!r}/{result!r}", w)
        return
    if exc is not None:
        st.fired += 1
        ctx.violation(f"index1d:raises:{type(exc).__name__}:{kc}", f"array raised {exc!r}", w)
        return
    if isinstance(key, int):
        if result is not want:
            st.fired += 1
            ctx.violation(f"index1d:wrong-selection:{kc}", "wrong element", w)
    else:
        if type(result).__name__ != cls_name or len(result.data) != len(want) or any(a is not b for a, b in zip(result.data, want)) \
                or result.shape != (len(want),):
            st.fired += 1
            ctx.violation(f"index1d:wrong-selection:{kc}", "wrong elements/order/class", w)


def _wrap_getitem(cls, two_d):
    orig = cls.__dict__["__getitem__"]
    name = cls.__name__

    @functools.wraps(orig)
    def __getitem__(self, key):
        st = _state
        if st is None:
            return orig(self, key)
        callee_key = key
        if not isinstance(key, (int, slice, tuple)) and isinstance(key, collections.abc.Iterable):
            one_shot = not hasattr(key, "__len__")
            key = list(key)  # the oracle needs to walk it again ...
            callee_key = (k for k in key) if one_shot else key  # ... the callee still gets a one-shot iterable if it was given one
        try:
            res = orig(self, callee_key)
        except Exception as e:
            (_check_2d if two_d else _check_1d)(st, name, self, key, None, e)
            raise
        (_check_2d if two_d else _check_1d)(st, name, self, key, res, None)
        return res

    cls.__getitem__ = __getitem__
    _orig[name] = orig


def _wrap_flat(cls):
    name = cls.__name__
    of = cls.__dict__["flatten"]

    @functools.wraps(of)
    def flatten(self):
        res = of(self)
        st = _state
        if st is not None:
            st.ctx.count("mindex.flatten")
            want = [x for r in rows_of(self) for x in r]
            if res.shape != (len(want),) or any(a is not b for a, b in zip(res.data, want)) or len(res.data) != len(want):
                st.fired += 1
                st.ctx.violation("flatten:order", "flatten does not preserve row-major order", {"class": name, "shape": list(self.shape)})
        return res

    cls.flatten = flatten


def _wrap_reshape(cls):
    name = cls.__name__
    orr = cls.__dict__["reshape"]

    @functools.wraps(orr)
    def reshape(self, shape):
        res = orr(self, shape)
        st = _state
        if st is not None:
            st.ctx.count("mindex.reshape")
            src = list(self.data) if len(self.shape) == 1 else [x for r in rows_of(self) for x in r]
            ok = tuple(res.shape) == tuple(shape) and len(res.data) == len(src) and all(a is b for a, b in zip(res.data, src))
            if ok:
                h, w = shape
                for y in range(h):
                    for x in range(w):
                        if _orig[type(res).__name__](res, (y, x)) is not src[y * w + x]:
                            ok = False
            if not ok:
                st.fired += 1
                st.ctx.violation("reshape:order", "reshape does not preserve row-major order", {"class": name, "from": list(self.shape), "to": list(shape)})
        return res

    cls.reshape = reshape


def install(ctx):
    global _state
    if not _orig:
        _wrap_getitem(A.BoolArray1D, False)
        _wrap_getitem(A.IntArray1D, False)
        _wrap_getitem(A.BoolArray2D, True)
        _wrap_getitem(A.IntArray2D, True)
        for c in (A.BoolArray2D, A.IntArray2D):
            _wrap_flat(c)
        for c in (A.BoolArray1D, A.IntArray1D, A.BoolArray2D, A.IntArray2D):
            _wrap_reshape(c)
    _state = State(ctx)
    return _state


def uninstall():
    global _state
    _state = None
