"""One generate_problem run in a fresh interpreter (C19: reproducibility across processes).

argv[1] = JSON {spec, seed, salt, sat_rate, uniq_rate, max_steps, pyseed}.  PYTHONHASHSEED is set by the parent.
Prints one line 'GEN ' + JSON {calls: [digest of every problem handed to the solver callback], result: repr, error}.
The callbacks are scripted from a keyed hash of repr(problem) (independent of the interpreter's string hashing)."""
import hashlib
import json
import os
import random
import sys

cfg = json.loads(sys.argv[1])
sys.path.insert(0, os.environ["VERIF_REPO"])
random.seed(cfg.get("pyseed", 0))

import cspuz.generator.srandom as SR  # noqa: E402
from cspuz.generator import ArrayBuilder2D, Choice, SegmentationBuilder2D, generate_problem  # noqa: E402


def h32(s):
    return int.from_bytes(hashlib.blake2b(s.encode(), digest_size=4).digest(), "little")


def build(spec):
    k = spec["kind"]
    if k == "array":
        return ArrayBuilder2D(spec["h"], spec["w"], spec["choice"], spec["choice"][spec.get("default", 0)], **spec.get("kw", {}))
    if k == "choice":
        return Choice(spec["choice"], spec["choice"][0])
    if k == "seg":
        return SegmentationBuilder2D(spec["h"], spec["w"], **spec.get("kw", {}))
    if k == "list":
        return [build(x) for x in spec["items"]]
    if k == "tuple":
        return tuple(build(x) for x in spec["items"])
    raise ValueError(k)


class Tok:
    def __init__(self, v):
        self.v = v


calls = []
salt = cfg["salt"]


def solver(p):
    calls.append(hashlib.blake2b(repr(p).encode(), digest_size=8).hexdigest())
    x = h32(f"{salt}|{p!r}")
    return (x % 1000 < cfg["sat_rate"] * 1000, Tok(x))


out = {}
try:
    SR.use_deterministic_prng(True, seed=cfg["seed"])
    res = generate_problem(solver, builder_pattern=build(cfg["spec"]), uniqueness=lambda t: (t.v >> 10) % 1000 < cfg["uniq_rate"] * 1000,
                           score=lambda t: (t.v >> 20) % 17, max_steps=cfg["max_steps"])
    out["result"] = repr(res)
except Exception as e:
    out["error"] = f"{type(e).__name__}: {e}"[:300]
out["calls"] = calls
print("GEN " + json.dumps(out))
