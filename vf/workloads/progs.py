"""Typed random constraint programs as JSON ASTs, a builder that constructs them
through cspuz' PUBLIC API (dunders, helpers, array methods), and an independent
evaluator of the AST (the meaning the user wrote, as opposed to the tree the DSL
built).

Bool nodes  : ["bv",i] ["bl",b] ["not",B] ["and",B,B] ["or",B,B] ["xor",B,B] ["iff",B,B] ["bne",B,B]
              ["then",B,B] ["cthen",B,B] ["cmp",op,I,I] ["alldiff",[I..]] ["alldiff_arr",[I..]]
              ["fold_and",NEST] ["fold_or",NEST] ["afold_and",[B..]] ["afold_or",[B..]]
              ["nand",[B..]] ["nor",[B..]] ["bc",b] (BOOL_CONSTANT node built directly)
Int nodes   : ["iv",i] ["il",n] ["neg",I] ["add",I,I] ["sub",I,I] ["cond",B,I,I] ["ccond",B,I,I]
              ["count",NEST] ["acount",[B..]] ["nadd",[I..]] ["nsub",[I..]] ["sum",[I..]]
NEST        : B | ["L", NEST...] (python list) | ["T", NEST...] (tuple) | ["G", NEST...] (generator)
              | ["A1", [B..]] (BoolArray1D)
"""
import itertools

import cspuz
from cspuz import constraints as C
from cspuz.array import BoolArray1D, IntArray1D
from cspuz.expr import BoolExpr, Expr, IntExpr, Op

CMPS = ["eq", "ne", "le", "lt", "ge", "gt"]


# ----------------------------------------------------------------------------- literal-ness
def is_lit(n):
    t = n[0]
    if t in ("bl", "il"):
        return True
    if t in ("bv", "iv"):
        return False
    if t in ("and", "or", "xor", "iff", "bne", "add", "sub"):
        return is_lit(n[1]) and is_lit(n[2])
    if t == "cmp":
        return is_lit(n[2]) and is_lit(n[3])
    if t == "neg":
        return is_lit(n[1])
    return False


# ----------------------------------------------------------------------------- AST semantics
def ev(n, vals):
    t = n[0]
    if t == "bv" or t == "iv":
        return vals[n[1]]
    if t in ("bl", "il", "bc", "ic"):
        return n[1]
    if t == "not":
        return not ev(n[1], vals)
    if t == "and":
        a, b = ev(n[1], vals), ev(n[2], vals)
        return a and b
    if t == "or":
        a, b = ev(n[1], vals), ev(n[2], vals)
        return a or b
    if t in ("xor", "bne"):
        return ev(n[1], vals) != ev(n[2], vals)
    if t == "iff":
        return ev(n[1], vals) == ev(n[2], vals)
    if t in ("then", "cthen"):
        return (not ev(n[1], vals)) or ev(n[2], vals)
    if t == "cmp":
        a, b = ev(n[2], vals), ev(n[3], vals)
        return {"eq": a == b, "ne": a != b, "le": a <= b, "lt": a < b, "ge": a >= b, "gt": a > b}[n[1]]
    if t in ("alldiff", "alldiff_arr"):
        xs = [ev(x, vals) for x in n[1]]
        return len(set(xs)) == len(xs)
    if t in ("fold_and", "afold_and", "nand"):
        return all(list(_flat(n[1], vals)))
    if t in ("fold_or", "afold_or", "nor"):
        return any(list(_flat(n[1], vals)))
    if t == "neg":
        return -ev(n[1], vals)
    if t == "add":
        return ev(n[1], vals) + ev(n[2], vals)
    if t == "sub":
        return ev(n[1], vals) - ev(n[2], vals)
    if t in ("cond", "ccond"):
        return ev(n[2], vals) if ev(n[1], vals) else ev(n[3], vals)
    if t in ("count", "acount"):
        return sum(1 for x in _flat(n[1], vals) if x)
    if t in ("nadd", "sum"):
        return sum(ev(x, vals) for x in n[1])
    if t == "nsub":
        xs = [ev(x, vals) for x in n[1]]
        r = xs[0]
        for x in xs[1:]:
            r -= x
        return r
    raise ValueError(t)


def _flat(nest, vals):
    if isinstance(nest, list) and nest and nest[0] in ("L", "T", "G"):
        for x in nest[1:]:
            yield from _flat(x, vals)
    elif isinstance(nest, list) and nest and nest[0] == "A1":
        for x in nest[1]:
            yield ev(x, vals)
    elif isinstance(nest, list) and (not nest or isinstance(nest[0], list)):
        for x in nest:  # plain list of nodes (afold_*, nand, ...)
            yield ev(x, vals)
    else:
        yield ev(nest, vals)


# ----------------------------------------------------------------------------- builder (public API)
def register_keys(solver, keys, selector):
    """add_answer_key accepts variables, arrays and any nesting of iterables: register `keys` (a list of variables, in order) in one
    of the documented argument forms, chosen by `selector` (an int)."""
    keys = list(keys)
    form = selector % 7
    if form == 0:
        solver.add_answer_key(keys)
    elif form == 1:
        solver.add_answer_key(*keys)
    elif form == 2:
        solver.add_answer_key(k for k in keys)  # a one-shot iterator
    elif form == 3:
        solver.add_answer_key(tuple(keys[:1]), [list(keys[1:2]), (k for k in keys[2:])])
    elif form == 4:
        solver.add_answer_key(map(lambda k: k, keys))
    elif form == 5:
        for k in keys:
            solver.add_answer_key(k)
    else:
        solver.add_answer_key(iter(keys[: len(keys) // 2]), reversed(keys[len(keys) // 2:]))
    return form


_memo = None


class shared:
    """with progs.shared(): identical sub-ASTs are built ONCE and the same expression object is used at every occurrence - in one
    constraint and across the constraints of a program or session (callers do write `a = x & y` and use `a` three times).  An
    operator that edits an operand node in place shows up as a wrong meaning of the other occurrences."""

    def __enter__(self):
        global _memo
        self.old, _memo = _memo, {}
        return self

    def __exit__(self, *a):
        global _memo
        _memo = self.old
        return False


def build(n, vars_):
    if _memo is None or n[0] in ("bv", "iv", "bl", "il"):
        return _build_raw(n, vars_)
    k = repr(n)
    if k in _memo:
        return _memo[k]
    r = _build_raw(n, vars_)
    if isinstance(r, Expr):
        _memo[k] = r
    return r


def _build_raw(n, vars_):
    t = n[0]
    if t == "bv" or t == "iv":
        return vars_[n[1]]
    if t == "bl" or t == "il":
        return n[1]
    if t == "bc":
        return BoolExpr(Op.BOOL_CONSTANT, [n[1]])
    if t == "ic":
        return IntExpr(Op.INT_CONSTANT, [n[1]])
    if t == "not":
        return ~build(n[1], vars_)
    if t == "and":
        return build(n[1], vars_) & build(n[2], vars_)
    if t == "or":
        return build(n[1], vars_) | build(n[2], vars_)
    if t == "xor":
        return build(n[1], vars_) ^ build(n[2], vars_)
    if t == "iff":
        return build(n[1], vars_) == build(n[2], vars_)
    if t == "bne":
        return build(n[1], vars_) != build(n[2], vars_)
    if t == "then":
        return build(n[1], vars_).then(build(n[2], vars_))
    if t == "cthen":
        return C.then(build(n[1], vars_), build(n[2], vars_))
    if t == "cmp":
        a, b = build(n[2], vars_), build(n[3], vars_)
        return {"eq": lambda: a == b, "ne": lambda: a != b, "le": lambda: a <= b, "lt": lambda: a < b,
                "ge": lambda: a >= b, "gt": lambda: a > b}[n[1]]()
    if t == "alldiff":
        xs = [build(x, vars_) for x in n[1]]
        if len(xs) % 2:
            return cspuz.alldifferent(xs)
        return cspuz.alldifferent(*xs)
    if t == "alldiff_arr":
        return IntArray1D([build(x, vars_) for x in n[1]]).alldifferent()
    if t == "fold_and":
        return cspuz.fold_and(_nest(n[1], vars_))
    if t == "fold_or":
        return cspuz.fold_or(_nest(n[1], vars_))
    if t == "afold_and":
        return BoolArray1D([build(x, vars_) for x in n[1]]).fold_and()
    if t == "afold_or":
        return BoolArray1D([build(x, vars_) for x in n[1]]).fold_or()
    if t == "nand":
        return BoolExpr(Op.AND, [build(x, vars_) for x in n[1]])
    if t == "nor":
        return BoolExpr(Op.OR, [build(x, vars_) for x in n[1]])
    if t == "neg":
        return -build(n[1], vars_)
    if t == "add":
        return build(n[1], vars_) + build(n[2], vars_)
    if t == "sub":
        return build(n[1], vars_) - build(n[2], vars_)
    if t == "cond":
        return build(n[1], vars_).cond(build(n[2], vars_), build(n[3], vars_))
    if t == "ccond":
        return cspuz.cond(build(n[1], vars_), build(n[2], vars_), build(n[3], vars_))
    if t == "count":
        return cspuz.count_true(_nest(n[1], vars_))
    if t == "acount":
        return BoolArray1D([build(x, vars_) for x in n[1]]).count_true()
    if t == "nadd":
        return IntExpr(Op.ADD, [build(x, vars_) for x in n[1]])
    if t == "nsub":
        return IntExpr(Op.SUB, [build(x, vars_) for x in n[1]])
    if t == "sum":
        return sum(build(x, vars_) for x in n[1])
    raise ValueError(t)


def _nest(nest, vars_):
    if isinstance(nest, list) and nest and nest[0] == "L":
        return [_nest(x, vars_) for x in nest[1:]]
    if isinstance(nest, list) and nest and nest[0] == "T":
        return tuple(_nest(x, vars_) for x in nest[1:])
    if isinstance(nest, list) and nest and nest[0] == "G":
        items = [_nest(x, vars_) for x in nest[1:]]
        return (x for x in items)
    if isinstance(nest, list) and nest and nest[0] == "A1":
        return BoolArray1D([build(x, vars_) for x in nest[1]])
    return build(nest, vars_)


def declare(solver, decls):
    vars_ = []
    for d in decls:
        if d[0] == "b":
            vars_.append(solver.bool_var())
        else:
            vars_.append(solver.int_var(d[1], d[2]))
    return vars_


def domain_of(d):
    return (False, True) if d[0] == "b" else range(d[1], d[2] + 1)


def ast_models(decls, constraints, cap=1 << 16):
    """Brute-force models under AST semantics; None if the product exceeds cap."""
    p = 1
    for d in decls:
        p *= len(domain_of(d))
        if p > cap:
            return None
    out = []
    for vals in itertools.product(*[domain_of(d) for d in decls]):
        if all(ev(c, vals) for c in constraints):
            out.append(vals)
    return out


# ----------------------------------------------------------------------------- generator
class Gen:
    def __init__(self, rng, decls, depth=4, lit_rate=0.12):
        self.rng = rng
        self.decls = decls
        self.bvars = [i for i, d in enumerate(decls) if d[0] == "b"]
        self.ivars = [i for i, d in enumerate(decls) if d[0] == "i"]
        self.depth = depth
        self.lit_rate = lit_rate
        self.bpool, self.ipool = [], []  # compound subtrees generated so far (re-used verbatim now and then: shared subterms)

    def int_lit(self):
        r = self.rng
        if self.ivars and r.random() < 0.6:
            d = self.decls[r.choice(self.ivars)]
            return r.randint(d[1] - 1, d[2] + 1)
        return r.choice([0, 1, -1, 2, 3, -2, 5])

    def nonlit_bool(self, d):
        for _ in range(8):
            n = self.bool_(d)
            if not is_lit(n):
                return n
        if self.bvars:
            return ["bv", self.rng.choice(self.bvars)]
        if self.ivars:
            return ["cmp", self.rng.choice(CMPS), ["iv", self.rng.choice(self.ivars)], ["il", self.int_lit()]]
        return None

    def nonlit_int(self, d):
        for _ in range(8):
            n = self.int_(d)
            if not is_lit(n):
                return n
        if self.ivars:
            return ["iv", self.rng.choice(self.ivars)]
        b = self.nonlit_bool(0)
        if b is None:
            return None
        return ["cond", b, ["il", 1], ["il", 0]]

    def bool_(self, d):
        r = self.rng
        if d > 0 and self.bpool and r.random() < 0.15:
            return r.choice(self.bpool)
        n = self._bool(d)
        if d > 0 and n[0] not in ("bv", "bl", "bc") and len(self.bpool) < 12:
            self.bpool.append(n)
        return n

    def _bool(self, d):
        r = self.rng
        if d <= 0 or r.random() < 0.18:
            if r.random() < 0.04:
                return ["bc", r.random() < 0.5]
            if r.random() < self.lit_rate or not self.bvars:
                if self.bvars or self.ivars:
                    if not self.bvars and r.random() < 0.8:
                        return ["cmp", r.choice(CMPS), ["iv", r.choice(self.ivars)], ["il", self.int_lit()]]
                return ["bl", r.random() < 0.5]
            return ["bv", r.choice(self.bvars)]
        k = r.random()
        if k < 0.10:
            x = self.nonlit_bool(d - 1)
            return ["not", x] if x is not None else ["bl", True]
        if k < 0.38:
            return [r.choice(["and", "or", "xor", "iff", "bne"]), self.bool_(d - 1), self.bool_(d - 1)]
        if k < 0.46:
            a = self.nonlit_bool(d - 1)
            if a is None:
                return ["bl", False]
            return ["then", a, self.bool_(d - 1)]
        if k < 0.50:
            return ["cthen", self.bool_(d - 1), self.bool_(d - 1)]
        if k < 0.74:
            return ["cmp", r.choice(CMPS), self.int_(d - 1), self.int_(d - 1)]
        if k < 0.80:
            m = r.choice([0, 1, 2, 2, 3, 4])
            xs = [self.int_(d - 1) for _ in range(m)]
            if r.random() < 0.3:
                xs = [self.nonlit_int(d - 1) for _ in range(m)]
                if all(x is not None for x in xs):
                    return ["alldiff_arr", xs]
                xs = [x if x is not None else ["il", 0] for x in xs]
            return ["alldiff", xs]
        if k < 0.90:
            return [r.choice(["fold_and", "fold_or"]), self.nest(d - 1, top=True)]
        if k < 0.96:
            m = r.choice([0, 1, 2, 3])
            xs = [self.nonlit_bool(d - 1) for _ in range(m)]
            xs = [x for x in xs if x is not None]
            return [r.choice(["afold_and", "afold_or"]), xs]
        m = r.choice([0, 1, 2, 3, 4])
        return [r.choice(["nand", "nor"]), [self.bool_(d - 1) for _ in range(m)]]

    def nest(self, d, top=False):
        r = self.rng
        k = r.random()
        if not top and (d <= 0 or k < 0.45):
            return self.bool_(d)
        m = r.choice([0, 0, 1, 2, 3, 4, 6])
        kind = r.choice(["L", "L", "T", "G", "A1"])
        if kind == "A1":
            xs = [self.nonlit_bool(d - 1) for _ in range(m)]
            return ["A1", [x for x in xs if x is not None]]
        return [kind] + [(["bl", r.random() < 0.6] if r.random() < 0.3 else self.nest(d - 1)) for _ in range(m)]

    def int_(self, d):
        r = self.rng
        if d > 0 and self.ipool and r.random() < 0.12:
            return r.choice(self.ipool)
        n = self._int(d)
        if d > 0 and n[0] not in ("iv", "il", "ic") and len(self.ipool) < 12:
            self.ipool.append(n)
        return n

    def _int(self, d):
        r = self.rng
        if d <= 0 or r.random() < 0.25:
            if r.random() < 0.04:
                return ["ic", self.int_lit()]
            if r.random() < max(self.lit_rate, 0.3) or not self.ivars:
                return ["il", self.int_lit()]
            return ["iv", r.choice(self.ivars)]
        k = r.random()
        if k < 0.10:
            x = self.int_(d - 1)
            return ["neg", x]
        if k < 0.45:
            return [r.choice(["add", "sub"]), self.int_(d - 1), self.int_(d - 1)]
        if k < 0.58:
            c = self.nonlit_bool(d - 1)
            if c is None:
                return ["il", 0]
            return ["cond", c, self.int_(d - 1), self.int_(d - 1)]
        if k < 0.64:
            return ["ccond", self.bool_(d - 1), self.int_(d - 1), self.int_(d - 1)]
        if k < 0.78:
            return ["count", self.nest(d - 1, top=True)]
        if k < 0.84:
            m = r.choice([0, 1, 2, 3])
            xs = [self.nonlit_bool(d - 1) for _ in range(m)]
            return ["acount", [x for x in xs if x is not None]]
        if k < 0.92:
            m = r.choice([2, 3, 4])
            return [r.choice(["nadd", "nsub"]), [self.int_(d - 1) for _ in range(m)]]
        m = r.choice([1, 2, 3])
        xs = [self.nonlit_int(d - 1) for _ in range(m)]
        xs = [x for x in xs if x is not None]
        if not xs:
            return ["il", 0]
        return ["sum", xs]


def gen_decls(rng, max_vars=6, cap=4096, wide=False):
    n = rng.randint(1, max_vars)
    decls = []
    prod = 1
    for _ in range(n):
        if rng.random() < 0.5:
            if prod * 2 > cap:
                break
            decls.append(["b"])
            prod *= 2
        else:
            if wide and rng.random() < 0.5:
                lo = rng.choice([-10 ** 6, -1000, 0, -(2 ** 31)])
                hi = rng.choice([10 ** 6, 1000, 2 ** 31])
                decls.append(["i", lo, hi])
                prod *= hi - lo + 1
                continue
            size = rng.choice([1, 1, 2, 3, 3, 4, 5, 6])
            if prod * size > cap:
                size = 1
            lo = rng.choice([0, 0, 1, -1, -3, -5, 2, 7, -10])
            decls.append(["i", lo, lo + size - 1])
            prod *= size
    if not decls:
        decls = [["b"]]
    return decls


def gen_program(rng, max_vars=6, cap=4096, wide=False, depth=None):
    decls = gen_decls(rng, max_vars, cap, wide)
    g = Gen(rng, decls, depth=depth or rng.choice([1, 2, 3, 3, 4, 5]))
    m = rng.choice([1, 1, 2, 3, 4])
    cons = [g.bool_(g.depth) for _ in range(m)]
    if rng.random() < 0.12:
        # one compound node (an n-ary-able operator on top) extended twice by the same operator: `a = p & q; a & r; a & s`
        op = rng.choice(["and", "or", "add", "sub"])
        if op in ("and", "or"):
            a = [op, g.nonlit_bool(1) or ["bl", True], g.bool_(1)]
            cons.append([rng.choice(["or", "iff", "xor"]), [op, a, g.bool_(1)], [op, a, g.bool_(1)]])
        else:
            a = [op, g.nonlit_int(1) or ["il", 1], g.int_(1)]
            cons.append(["cmp", rng.choice(CMPS), [op, a, g.int_(1)], [op, a, g.int_(1)]])
    return {"decls": decls, "constraints": cons}
