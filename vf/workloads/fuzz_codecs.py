"""Coverage-guided fuzzing (atheris / libFuzzer) of the URL decoders under the C17 contract.
Child process of vf.props.c17 (thorough tier).  usage: python -m vf.workloads.fuzz_codecs -runs=N -seed=S -target=K
Violations and a final statistics record are appended to $VERIF_ATHERIS_OUT as JSON lines (libFuzzer leaves via
_exit, so nothing is deferred to atexit)."""
import json
import os
import sys

from .. import boot  # noqa: F401

import atheris  # noqa: E402

with atheris.instrument_imports(include=["cspuz.problem_serializer", "cspuz.puzzle.yajilin", "cspuz.puzzle.compass", "cspuz.puzzle.heyawake"]):
    from ..props import c17

from ..ctx import Ctx  # noqa: E402

OUT = os.environ.get("VERIF_ATHERIS_OUT", "/dev/null")
args = [a for a in sys.argv if not a.startswith("-target=")]
tgt = [int(a.split("=")[1]) for a in sys.argv if a.startswith("-target=")]
runs = [int(a.split("=")[1]) for a in sys.argv if a.startswith("-runs=")]
RUNS = runs[0] if runs else 0
NAMES = list(c17.TARGETS)
NAME = NAMES[(tgt[0] if tgt else 0) % len(NAMES)]
ctx = Ctx("C17", "thorough", 0, 0, 1)
seen = set()
count = [0]


def one(data):
    fdp = atheris.FuzzedDataProvider(data)
    mode = fdp.ConsumeIntInRange(0, 3)
    w = fdp.ConsumeIntInRange(0, 12)
    h = fdp.ConsumeIntInRange(0, 12)
    body = fdp.ConsumeUnicodeNoSurrogates(80)
    if mode == 0:
        text = body
    else:
        text = f"https://puzz.link/p?{NAME if mode < 3 else 'x'}/{w}/{h}/{body}"
    n0 = len(ctx.violations)
    c17.judge_decode(ctx, NAME, text, "atheris")
    for v in ctx.violations[n0:]:
        if v["mech"] not in seen:
            seen.add(v["mech"])
            with open(OUT, "a") as f:
                f.write(json.dumps(v, default=repr) + "\n")
    ctx.case_hashes.clear()
    ctx.nontrivial_hashes.clear()
    count[0] += 1
    if count[0] == RUNS:
        with open(OUT, "a") as f:
            f.write(json.dumps({"stat": {"execs": count[0], "outcome_none": ctx.counters.get("c17.outcome.none", 0),
                                         "outcome_ValueError": ctx.counters.get("c17.outcome.ValueError", 0),
                                         "outcome_problem": ctx.counters.get("c17.outcome.problem", 0)}}) + "\n")


atheris.Setup(args, one)
atheris.Fuzz()
