"""Realistic workloads run UNDER the monitors: the repository's own test-suite (in-process pytest) and the built-in
example of every puzzle module (the module's _main()/main() with no arguments)."""
import contextlib
import importlib
import io
import os
import pkgutil
import sys
import time

REPO = os.environ.get("VERIF_REPO", "/repo")


def run_repo_tests(ctx, select=None):
    import pytest

    args = [os.path.join(REPO, "tests"), "-q", "-p", "no:cacheprovider", "--timeout=20", "-x" if False else "-q", "--no-header", "-W", "ignore"]
    if select:
        args += ["-k", select]
    buf = io.StringIO()
    cwd = os.getcwd()
    os.chdir(REPO)
    try:
        with contextlib.redirect_stdout(buf), contextlib.redirect_stderr(buf):
            rc = pytest.main(args)
    finally:
        os.chdir(cwd)
    tail = buf.getvalue().strip().splitlines()[-1:] or [""]
    ctx.count("realistic.repo_tests_runs")
    ctx.note("repository test-suite under the monitors: " + tail[0][:120])
    return rc


def run_puzzle_examples(ctx, budget_s=120, skip=(), only=None):
    import cspuz.puzzle as P

    t0 = time.time()
    for k, m in enumerate(sorted(pkgutil.iter_modules(P.__path__), key=lambda m: m.name)):
        if m.name in ("util",) or m.name in skip or (only is not None and not only(k)):
            continue
        if time.time() - t0 > budget_s:
            ctx.count("realistic.examples_skipped_budget")
            continue
        try:
            mod = importlib.import_module("cspuz.puzzle." + m.name)
        except ImportError:
            ctx.count("realistic.puzzle_module_unimportable")  # optional third-party dependency missing (magnets needs svgwrite)
            continue
        fn = getattr(mod, "_main", None) or getattr(mod, "main", None)
        if fn is None:
            continue
        argv = sys.argv
        sys.argv = [m.name]
        buf = io.StringIO()
        try:
            with contextlib.redirect_stdout(buf), contextlib.redirect_stderr(buf):
                with ctx.guard(90, {"puzzle_example": m.name}):
                    fn()
            ctx.count("realistic.puzzle_examples")
        except SystemExit:
            ctx.count("realistic.puzzle_examples")
        except Exception as e:
            ctx.count("realistic.puzzle_example_raised")
            ctx.note(f"example of cspuz.puzzle.{m.name} raised {type(e).__name__}: {str(e)[:80]}")
        finally:
            sys.argv = argv
