"""One configuration of C20 in a fresh interpreter (configuration is read at import time).

argv[1] = JSON: {present: [module names importable], post: {attr: value}, fn, acyclic, prim_arg, backend_arg, call}
Environment variables CSPUZ_* are set by the parent.  Prints one JSON line with the observations:
import order probes (audit hook), config values after import, backend class instantiated, external entry point
invoked (stub module / fake sugar executable), native operators in the posted program and in the emitted text,
exceptions with the phase in which they occurred."""
import json
import os
import sys

cfg = json.loads(sys.argv[1])
HOME = os.environ["VERIF_HOME"]
REPO = os.environ["VERIF_REPO"]
obs = {"probes": [], "popen": [], "phase": "start"}
WATCH = ("cspuz_core", "enigma_csp", "pycsugar", "z3")


def hook(name, args):
    if name == "import" and args and args[0] in WATCH and args[0] not in obs["probes"]:
        obs["probes"].append(args[0])
    elif name == "subprocess.Popen":
        obs["popen"].append(str(args[0]))


sys.addaudithook(hook)


class Blocker:
    def find_spec(self, name, path=None, target=None):
        if name in WATCH and name not in cfg["present"]:
            raise ImportError("blocked by the C20 harness: " + name)
        return None


sys.meta_path.insert(0, Blocker())
sys.path.insert(0, REPO)
sys.path.insert(1, HOME)
if any(m in cfg["present"] for m in ("cspuz_core", "enigma_csp", "pycsugar")):
    sys.path.append(os.path.join(HOME, "stubs", "mods"))


def out():
    print("OBS " + json.dumps(obs, default=repr))
    sys.stdout.flush()
    os._exit(0)


try:
    obs["phase"] = "import"
    import cspuz
    from cspuz import graph
    from cspuz.backend import sugar_like, z3 as z3b
    from cspuz.expr import Op, Expr
except Exception as e:
    obs["import_error"] = type(e).__name__
    obs["import_error_text"] = str(e)[:200]
    out()

obs["config"] = {"default_backend": cspuz.config.default_backend, "use_graph_primitive": cspuz.config.use_graph_primitive,
                 "use_graph_division_primitive": cspuz.config.use_graph_division_primitive, "backend_path": cspuz.config.backend_path}
obs["probes_at_import"] = list(obs["probes"])

inst = []
for cls in (sugar_like.SugarBackend, sugar_like.SugarExtendedBackend, sugar_like.CSugarBackend, sugar_like.EnigmaCSPBackend,
            sugar_like.CspuzCoreBackend, z3b.Z3Backend):
    def mk(cls):
        orig = cls.__init__

        def __init__(self, variables):
            inst.append(cls.__name__)
            orig(self, variables)
        cls.__init__ = __init__
    mk(cls)

obs["phase"] = "post-assign"
for k, v in (cfg.get("post") or {}).items():
    setattr(cspuz.config, k, v)

obs["phase"] = "build"
try:
    s = cspuz.Solver()
    fn = cfg["fn"]
    kw = {}
    if cfg.get("prim_arg") is not None:
        kw["use_graph_primitive"] = cfg["prim_arg"]
    if fn == "avc":
        a = s.bool_array((2, 2))
        graph.active_vertices_connected(s, a, acyclic=cfg.get("acyclic", False), **kw)
        s.add_answer_key(a)
    elif fn == "avc_graph":
        g = graph.Graph(3)
        g.add_edge(0, 1)
        g.add_edge(1, 2)
        a = s.bool_array(3)
        graph.active_vertices_connected(s, a, g, acyclic=cfg.get("acyclic", False), **kw)
        s.add_answer_key(a)
    elif fn == "division":
        d = s.int_array((2, 2), 0, 1)
        graph.division_connected(s, d, 2)  # no per-call argument exists: the configuration flag decides
        s.add_answer_key(d)
    elif fn == "cycle":
        fr = cspuz.BoolGridFrame(s, 1, 1)
        graph.active_edges_single_cycle(s, fr, **kw)
        s.add_answer_key(fr)
    elif fn == "single_loop":
        fr = cspuz.BoolGridFrame(s, 1, 1)
        fr.single_loop()  # the frame's own wrapper: no per-call argument exists, the configuration flag decides
        s.add_answer_key(fr)
    elif fn == "crossable":
        fr = cspuz.BoolGridFrame(s, 1, 1)
        graph.active_edges_connected_crossable(s, fr, **kw)
        s.add_answer_key(fr)
    elif fn == "borders":
        from cspuz.grid_frame import BoolInnerGridFrame

        fr = BoolInnerGridFrame(s, 2, 2)
        gs = s.int_array((2, 2), 1, 4)
        graph.division_connected_variable_groups_with_borders(s, group_size=gs, is_border=fr, **kw)
        s.add_answer_key(gs)
    else:
        x = s.bool_var()
        s.ensure(x | ~x)
        s.add_answer_key(x)

    def has(op):
        def walk(e):
            return isinstance(e, Expr) and (e.op == op or any(walk(c) for c in e.operands))
        return any(walk(c) for c in s.constraints)
    obs["posted_native_connected"] = has(Op.GRAPH_ACTIVE_VERTICES_CONNECTED)
    obs["posted_native_division"] = has(Op.GRAPH_DIVISION)
except Exception as e:
    obs["build_error"] = type(e).__name__
    obs["build_error_text"] = str(e)[:200]
    out()

obs["phase"] = "solve"
barg = cfg.get("backend_arg")
if barg == "CLASS:z3":
    barg = z3b.Z3Backend
elif barg == "CLASS:cspuz_core":
    barg = sugar_like.CspuzCoreBackend
try:
    if cfg.get("call") == "solve":
        import warnings

        with warnings.catch_warnings():
            warnings.simplefilter("ignore")
            obs["result"] = s.solve(backend=barg) if barg is not None else s.solve()
    else:
        obs["result"] = s.find_answer(backend=barg) if barg is not None else s.find_answer()
except Exception as e:
    obs["solve_error"] = type(e).__name__
    obs["solve_error_text"] = str(e)[:200]
obs["instantiated"] = list(inst)


def snapshot():
    entries, texts = [], []
    for m in ("pycsugar", "enigma_csp", "cspuz_core"):
        mod = sys.modules.get(m)
        if mod is not None and hasattr(mod, "CALLS"):
            for ent, text, reply in mod.CALLS:
                entries.append(ent)
                texts.append(text)
    log = os.environ.get("VERIF_WIRE_LOG")
    if log and os.path.exists(log):
        for line in open(log):
            try:
                d = json.loads(line)
            except ValueError:
                continue
            if d.get("entry") == "sugar-exe":
                entries.append("sugar-exe")
                texts.append(d["text"])
    return entries, texts


entries, texts = snapshot()
obs["entries"] = entries
# ---- later solves in the SAME process (history): other per-call names, a re-assigned default
obs["followups"] = []
for fu in cfg.get("followups") or []:
    rec = {}
    if "default_backend" in fu:
        cspuz.config.default_backend = fu["default_backend"]
    n_inst = len(inst)
    before, _ = snapshot()
    s2 = cspuz.Solver()
    x2 = s2.bool_var()
    s2.ensure(x2 | ~x2)
    s2.add_answer_key(x2)
    b2 = fu.get("backend_arg")
    try:
        if fu.get("call") == "solve":
            import warnings

            with warnings.catch_warnings():
                warnings.simplefilter("ignore")
                rec["result"] = s2.solve(backend=b2) if b2 is not None else s2.solve()
        else:
            rec["result"] = s2.find_answer(backend=b2) if b2 is not None else s2.find_answer()
    except Exception as e:
        rec["solve_error"] = type(e).__name__
        rec["solve_error_text"] = str(e)[:200]
    rec["instantiated"] = inst[n_inst:]
    after, _ = snapshot()
    for e in before:
        after.remove(e)
    rec["entries"] = after
    obs["followups"].append(rec)
obs["text_native_connected"] = any("graph-active-vertices-connected" in t for t in texts)
obs["text_native_division"] = any("graph-division" in t for t in texts)
obs["phase"] = "done"
out()
