"""Typed generator of serializer-combinator terms and of values in their domains
(C15), with a first-character analysis so that OneOf alternatives are only
generated when distinguishable by their leading character."""
import string

from cspuz import problem_serializer as PS

B36 = "0123456789abcdefghijklmnopqrstuvwxyz"


# ----------------------------------------------------------------------------- terms
def room_opts(rng):
    """the two documented options of Rooms / ValuedRooms (heyawake uses skip_on_error=True, allow_redundant_border=False)"""
    r = rng.random()
    if r < 0.5:
        return []
    return [{"skip_on_error": rng.random() < 0.5, "allow_redundant_border": rng.random() < 0.5}]


def _vr(rng, inner):
    return ["ValuedRooms", inner] + room_opts(rng)


def build(t):
    k = t[0]
    if k == "FixStr":
        return PS.FixStr(t[1])
    if k == "Dict":
        return PS.Dict(list(t[1]), list(t[2]))
    if k == "Spaces":
        return PS.Spaces(t[1], t[2])
    if k == "DecInt":
        return PS.DecInt()
    if k == "HexInt":
        return PS.HexInt()
    if k == "IntSpaces":
        return PS.IntSpaces(t[1], t[2], t[3])
    if k == "MultiDigit":
        return PS.MultiDigit(t[1], t[2])
    if k == "OneOf":
        alts = [build(x) for x in t[1]]
        return PS.OneOf(alts) if len(alts) % 2 else PS.OneOf(*alts)
    if k == "Tupl":
        els = [build(x) for x in t[1]]
        return PS.Tupl(*els) if len(els) % 2 else PS.Tupl(els)
    if k == "Seq":
        return PS.Seq(build(t[1]), t[2])
    if k == "Grid":
        return PS.Grid(build(t[1]), t[2], t[3]) if t[2] is not None else PS.Grid(build(t[1]))
    if k == "Rooms":
        return PS.Rooms(**(t[1] if len(t) > 1 else {}))
    if k == "ValuedRooms":
        return PS.ValuedRooms(build(t[1]), **(t[2] if len(t) > 2 else {}))
    raise ValueError(k)


def first(t):
    """Set of characters that can start a serialization of t / that its deserializer accepts first."""
    k = t[0]
    if k == "FixStr":
        return {t[1][0]}
    if k == "Dict":
        return {a[0] for a in t[2]}
    if k == "Spaces":
        return set(B36[B36.index(t[2]):])
    if k == "DecInt":
        return set("0123456789")
    if k == "HexInt":
        return set("0123456789abcdef-+")
    if k == "IntSpaces":
        return set(B36[:(t[2] + 1) * (t[3] + 1)])
    if k == "MultiDigit":
        return set(B36[:t[1] ** t[2]])
    if k == "OneOf":
        s = set()
        for x in t[1]:
            s |= first(x)
        return s
    if k == "Tupl":
        return first(t[1][0])
    if k in ("Seq", "Grid"):
        return first(t[1])
    if k in ("Rooms", "ValuedRooms"):
        return set(B36[:32])
    raise ValueError(k)


def gen_leaf(rng, avoid=frozenset(), allow_decint=False):
    """A leaf element combinator whose first-character set avoids `avoid` (or None)."""
    for _ in range(30):
        k = rng.choice(["Dict", "Spaces", "HexInt", "IntSpaces", "MultiDigit", "Dict", "Spaces"] + (["DecInt"] if allow_decint else []))
        if k == "Dict":
            n = rng.randint(1, 3)
            chars = rng.sample(".:_~*@" + string.ascii_uppercase[:8], n)
            vals = rng.sample([-1, -2, "x", "??", 100, None, (1, 2), "ab"], n)
            t = ["Dict", vals, [c if rng.random() < 0.7 else c + rng.choice("ab") for c in chars]]
        elif k == "Spaces":
            t = ["Spaces", rng.choice([0, -1, "..", None]), rng.choice("ghkz5a")]
        elif k == "HexInt":
            t = ["HexInt"]
        elif k == "DecInt":
            t = ["DecInt"]
        elif k == "IntSpaces":
            mi, ms = rng.choice([(4, 2), (1, 3), (8, 3), (2, 11), (5, 5), (0, 3)])
            t = ["IntSpaces", rng.choice([-1, 9]), mi, ms]
        else:
            b, d = rng.choice([(3, 3), (2, 5), (2, 1), (6, 2), (36, 1), (4, 2)])
            t = ["MultiDigit", b, d]
        if not (first(t) & avoid):
            return t
    return None


def gen_element(rng, depth=2):
    """Element-level term: consumes items of a flat list (used under Grid / Seq / ValuedRooms)."""
    k = rng.random()
    if k < 0.35:
        return gen_leaf(rng)
    if k < 0.85:
        alts = []
        used = set()
        for _ in range(rng.randint(2, 3)):
            leaf = gen_leaf(rng, frozenset(used))
            if leaf is None or leaf[0] == "MultiDigit":
                continue
            # two alternatives that both encode runs of the same value (two Spaces, or IntSpaces + Spaces with the same
            # space) are fine; alternatives able to encode the same NON-space value are fine too (first match wins)
            alts.append(leaf)
            used |= first(leaf)
        isp = [a for a in alts if a[0] == "IntSpaces"]
        if isp:
            # no other alternative may take the values 0..max_int that the IntSpaces owns (its trailing spaces would be orphaned)
            keep = isp[0]
            mi = keep[2]

            def steals(a):
                if a is keep:
                    return False
                if a[0] in ("HexInt", "DecInt", "IntSpaces"):
                    return True
                if a[0] == "Spaces":
                    return isinstance(a[1], int) and 0 <= a[1] <= mi
                if a[0] == "Dict":
                    return any(isinstance(b, int) and not isinstance(b, bool) and 0 <= b <= mi for b in a[1])
                return False
            alts = [a for a in alts if not steals(a)]
        if len(alts) >= 2:
            return ["OneOf", alts]
        return alts[0] if alts else ["HexInt"]
    if depth > 0:
        # an item that is itself structured: tuple of fixed components
        comps = []
        for _ in range(rng.randint(1, 3)):
            c = rng.choice(["hex", "dict", "fix", "seq"])
            if c == "hex":
                comps.append(["HexInt"])
            elif c == "dict":
                comps.append(["Dict", [0, 1, "z"], ["p", "q", "r"]])
            elif c == "fix":
                comps.append(["FixStr", rng.choice(["/", "_", "=="])])
            else:
                comps.append(["Seq", ["HexInt"], rng.randint(1, 3)])
        if comps[0][0] == "FixStr" and rng.random() < 0.5:
            comps[0] = ["HexInt"]
        return ["Tupl", comps]
    return ["HexInt"]


def gen_top(rng):
    k = rng.random()
    if k < 0.40:
        e = gen_element(rng)
        if rng.random() < 0.3:
            return ["Grid", e, rng.randint(1, 4), rng.randint(1, 4)]
        return ["Grid", e, None, None]
    if k < 0.55:
        return ["Seq", gen_element(rng), rng.randint(1, 12)]
    if k < 0.70:
        return ["Rooms"] + room_opts(rng)
    if k < 0.85:
        return _vr(rng, rng.choice([["OneOf", [["HexInt"], ["Spaces", -1, "g"]]], ["HexInt"], ["Dict", [0, 1], ["p", "q"]],
                                           ["OneOf", [["Dict", ["?"], ["."]], ["HexInt"]]]]))
    comps = []
    for _ in range(rng.randint(2, 3)):
        c = rng.random()
        if c < 0.4:
            comps.append(["Grid", gen_element(rng, 0), rng.randint(1, 3), rng.randint(1, 3)])
        elif c < 0.55:
            comps.append(["Grid", gen_element(rng, 0), None, None])
        elif c < 0.7:
            comps.append(["DecInt"])
            comps.append(["FixStr", rng.choice(["/", ";", "x"])])
        elif c < 0.74:
            comps.append(["MultiDigit", *rng.choice([(6, 2), (3, 3), (2, 5), (36, 1)])])
        elif c < 0.80:
            comps.append(["Rooms"] + room_opts(rng))
        elif c < 0.90:
            comps.append(_vr(rng, rng.choice([["OneOf", [["HexInt"], ["Spaces", -1, "g"]]], ["HexInt"], ["Dict", [0, 1], ["p", "q"]]])))
        else:
            comps.append(["Seq", ["HexInt"], rng.randint(1, 4)])
    return ["Tupl", comps]


# ----------------------------------------------------------------------------- values
EDGE_INTS = [0, 1, 9, 10, 15, 16, 17, 255, 256, 257, 4095, 4094, 100]


def items_for(t, n, rng):
    """A flat list of exactly n items acceptable to element term t (used under Seq / Grid)."""
    out = []
    guard = 0
    while len(out) < n:
        guard += 1
        rem = n - len(out)
        chunk = emit(t, rem, rng, prev=out)
        out += chunk[:rem]
        if guard > 10 * n + 50:
            raise RuntimeError("value generator stuck")
    return out


def emit(t, rem, rng, prev=None):
    """One or more items that term t can serialize starting at this position (at most rem)."""
    k = t[0]
    if k == "Dict":
        return [rng.choice(t[1])]
    if k == "Spaces":
        mx = 35 - (B36.index(t[2]) - 1)
        run = rng.choice([1, 1, 2, 3, mx - 1, mx, mx + 1, mx + 2, 2 * mx + 1])
        return [t[1]] * max(1, min(run, rem))
    if k == "HexInt":
        return [rng.choice(EDGE_INTS) if rng.random() < 0.6 else rng.randint(0, 4095)]
    if k == "DecInt":
        return [rng.choice([0, 7, 10, 123456789, 2 ** 40])]
    if k == "IntSpaces":
        v = rng.randint(0, t[2])
        ns = rng.choice([0, 0, 1, t[3], t[3]])
        return [v] + [t[1]] * min(ns, rem - 1)
    if k == "MultiDigit":
        return [rng.randrange(t[1]) for _ in range(min(rem, rng.choice([1, t[2], t[2] + 1])))]
    if k == "OneOf":
        # runs of a space value longer than an IntSpaces can hold need a Spaces alternative for the same value: choose alternatives
        # freely, but when the previous emission was an IntSpaces with trailing spaces do not start with that same space via Spaces
        alt = rng.choice(t[1])
        return emit(alt, rem, rng, prev)
    if k == "Tupl":
        return [value_of(t, None, rng)]
    if k == "Seq":
        return [value_of(t, None, rng)]
    if k == "Grid":
        return [value_of(t, None, rng)]
    raise ValueError(k)


def value_of(t, env, rng):
    """One value (a single item) of term t; env = (height, width) for env-sized parts."""
    k = t[0]
    if k == "Tupl":
        comps = []
        for c in t[1]:
            if c[0] == "FixStr":
                comps.append([])
            elif c[0] in ("Grid", "Seq", "Rooms", "ValuedRooms", "Tupl"):
                comps.append([value_of(c, env, rng)])
            elif c[0] == "Spaces":
                mx = 35 - (B36.index(c[2]) - 1)
                comps.append([c[1]] * rng.randint(1, mx))
            elif c[0] == "IntSpaces":
                comps.append([rng.randint(0, c[2])] + [c[1]] * rng.randint(0, c[3]))
            elif c[0] == "MultiDigit":
                comps.append([rng.randrange(c[1]) for _ in range(c[2])])  # full digit group (a partial group is zero-padded on decode)
            else:
                comps.append(emit(c, 1, rng)[:1])
        return tuple(comps)
    if k == "Seq":
        return items_for(t[1], t[2], rng)
    if k == "Grid":
        h, w = (t[2], t[3]) if t[2] is not None else env
        flat = items_for(t[1], h * w, rng)
        return [flat[y * w:(y + 1) * w] for y in range(h)]
    if k == "Rooms":
        return random_rooms(env[0], env[1], rng)
    if k == "ValuedRooms":
        rooms = random_rooms(env[0], env[1], rng)
        vals = items_for(t[1], len(rooms), rng)
        return (rooms, vals)
    if k == "OneOf":
        return value_of(rng.choice(t[1]), env, rng)
    return emit(t, 1, rng)[0]


def random_partition_ids(h, w, rng, nrooms=None):
    """Random partition of the h x w board into orthogonally connected rooms: grid of room ids."""
    n = h * w
    k = nrooms or rng.randint(1, max(1, min(n, rng.choice([1, 2, 3, n // 2 + 1, n]))))
    cells = [(y, x) for y in range(h) for x in range(w)]
    seeds = rng.sample(cells, k)
    rid = {c: i for i, c in enumerate(seeds)}
    frontier = list(seeds)
    while len(rid) < n:
        c = rng.choice(frontier)
        y, x = c
        nb = [(y + dy, x + dx) for dy, dx in ((0, 1), (1, 0), (0, -1), (-1, 0)) if 0 <= y + dy < h and 0 <= x + dx < w and (y + dy, x + dx) not in rid]
        if not nb:
            frontier.remove(c)
            continue
        d = rng.choice(nb)
        rid[d] = rid[c]
        frontier.append(d)
    return [[rid[(y, x)] for x in range(w)] for y in range(h)]


def random_rooms(h, w, rng, shuffle=True):
    ids = random_partition_ids(h, w, rng)
    rooms = {}
    for y in range(h):
        for x in range(w):
            rooms.setdefault(ids[y][x], []).append((y, x))
    rl = list(rooms.values())
    if shuffle:
        rng.shuffle(rl)
        for r in rl:
            if rng.random() < 0.7:
                rng.shuffle(r)
    return rl


def canon_rooms(rooms):
    return sorted(sorted(map(tuple, r)) for r in rooms)


def needs_env(t):
    k = t[0]
    if k in ("Rooms", "ValuedRooms"):
        return True
    if k == "Grid":
        return t[2] is None or needs_env(t[1])
    if k in ("OneOf", "Tupl"):
        return any(needs_env(x) for x in t[1])
    if k == "Seq":
        return needs_env(t[1])
    return False


def canon_value(t, v):
    """Canonical form for comparison: rooms up to ordering of rooms/cells with values attached to the same cell sets."""
    k = t[0]
    if k == "Rooms":
        return ["rooms", canon_rooms(v)]
    if k == "ValuedRooms":
        rooms, vals = v
        return ["vrooms", len(rooms), len(vals), sorted((sorted(map(tuple, r)), repr(x)) for r, x in zip(rooms, vals))]
    if k == "Tupl":
        out = []
        if len(t[1]) != len(v):
            return ["tuple-arity", len(v), repr(v)[:200]]
        for c, comp in zip(t[1], v):
            if c[0] in ("Rooms", "ValuedRooms", "Tupl", "Grid", "Seq") and len(comp) == 1:
                out.append([canon_value(c, comp[0])])
            else:
                out.append(list(comp))
        return ["tuple", out]
    if k == "Grid":
        return [[canon_item(t[1], x) for x in row] for row in v]
    if k == "Seq":
        return [canon_item(t[1], x) for x in v]
    return v


def canon_item(t, x):
    if t[0] == "Tupl" and isinstance(x, tuple):
        return canon_value(t, x)
    if t[0] in ("Seq", "Grid") and isinstance(x, list):
        return canon_value(t, x)
    if t[0] == "OneOf":
        for a in t[1]:
            if a[0] in ("Tupl", "Seq", "Grid"):
                return canon_item(a, x)
    return x
