"""Drivers shared by the graph-constraint properties (C04-C10).

Two sweep modes over the caller's boolean/integer variables:
  pointwise      one fresh Solver + find_answer per pattern
  accepted-set   one Solver, repeated find_answer + blocking clause until UNSAT;
                 the set of accepted patterns is compared with the definition's
                 set (decides all patterns in #accepted+1 solves)
The real cspuz.graph function is called every time; the oracle is a definition
from refs/graphdefs.  M-SOLVE stays installed as an assistant (model
genuineness on every SAT answer)."""
import itertools

import cspuz
from cspuz.array import BoolArray1D, BoolArray2D

from ..monitors import msolve


WARM = {"on": True, "used": 0, "raised": 0}


def use_everywhere(g):
    """A caller that posts constraints on a graph it is still building: every public constraint that takes a Graph is posted once
    on a scratch solver (nothing is solved).  Whatever the Graph object remembers from this must not leak into later use."""
    import cspuz
    from cspuz import graph as GR

    n, m = g.num_vertices, len(g.edges)
    for f in (
        lambda s: GR.active_vertices_connected(s, [s.bool_var() for _ in range(n)], g),
        lambda s: GR.active_vertices_connected(s, [s.bool_var() for _ in range(n)], g, acyclic=True),
        lambda s: GR.active_vertices_connected(s, [s.bool_var() for _ in range(n)], g, use_graph_primitive=True),
        lambda s: GR.active_vertices_not_adjacent(s, [s.bool_var() for _ in range(n)], g),
        lambda s: GR.active_vertices_not_adjacent_and_not_segmenting(s, cspuz.array.BoolArray1D([s.bool_var() for _ in range(n)]), g),
        lambda s: GR.active_edges_acyclic(s, [s.bool_var() for _ in range(m)], g),
        lambda s: GR.active_edges_single_cycle(s, [s.bool_var() for _ in range(m)], g, use_graph_primitive=False),
        lambda s: GR.active_edges_single_cycle(s, [s.bool_var() for _ in range(m)], g, use_graph_primitive=True),
        lambda s: GR.active_edges_single_path(s, [s.bool_var() for _ in range(m)], g, use_graph_primitive=True),
        lambda s: GR.division_connected(s, [s.int_var(0, 1) for _ in range(n)], 2, g),
        lambda s: GR.division_connected_variable_groups(s, graph=g, group_size=None),
        lambda s: GR.division_connected_variable_groups_with_borders(s, group_size=None, is_border=[s.bool_var() for _ in range(m)], graph=g),
        lambda s: g.line_graph(),
        lambda s: (len(g), list(g), [g[i] for i in range(m)]),
    ):
        try:
            f(cspuz.Solver())
            WARM["used"] += 1
        except Exception:
            WARM["raised"] += 1


def mk_graph(n, edges):
    """The Graph a caller would build - for half of the graphs (chosen from the graph itself, so a replay repeats it) the caller
    already USES the graph after a prefix of the add_edge calls and then goes on adding edges (history workload)."""
    import random

    from cspuz.graph import Graph

    g = Graph(n)
    edges = list(edges)
    r = random.Random(repr((n, edges)))
    cut = r.randrange(len(edges) + 1) if (WARM["on"] and edges and r.random() < 0.5) else None
    for k, (u, v) in enumerate(edges):
        if k == cut:
            use_everywhere(g)
        g.add_edge(u, v)
    if cut is not None and cut == len(edges):
        use_everywhere(g)
    return g


def grown_graphs(rng, count, nmax=6, parallel=True):
    """History workload: ONE Graph object per run, handed out again after every add_edge (a caller that builds a graph, posts a
    constraint, extends the graph and posts again).  Yields (graph, n, edges_so_far, new_edge)."""
    from cspuz.graph import Graph

    for _ in range(count):
        n = rng.randint(2, nmax)
        g = Graph(n)
        edges = []
        yield g, n, list(edges), None  # used before any edge exists
        for _ in range(rng.randint(1, n + 2)):
            u, v = rng.sample(range(n), 2)
            if not parallel and ((u, v) in edges or (v, u) in edges):
                continue
            g.add_edge(u, v)
            edges.append((u, v))
            yield g, n, list(edges), (u, v)


def patterns_around(rng, n, edges, new_edge, k):
    """k vertex patterns: ones the new edge matters for (both ends active, grown along existing edges), plus random ones"""
    adj = [[] for _ in range(n)]
    for u, v in edges:
        adj[u].append(v)
        adj[v].append(u)
    out = []
    for i in range(k):
        if new_edge is not None and i % 2 == 0:
            cur = set(new_edge)
            for _ in range(rng.randint(0, n)):
                nb = [w for u in cur for w in adj[u] if w not in cur]
                if not nb:
                    break
                cur.add(rng.choice(nb))
            out.append(tuple(1 if v in cur else 0 for v in range(n)))
        else:
            out.append(tuple(rng.randint(0, 1) for _ in range(n)))
    return out


def worm(rng, h, w, tries=30):
    """A long induced path of grid cells (a self-avoiding walk that never touches itself orthogonally): the region whose BFS depth
    equals its length - what a rank / distance bound in an encoding has to cover.  Returns the list of cells in walk order."""
    best = []
    for _ in range(tries):
        y, x = rng.randrange(h), rng.randrange(w)
        path, cells = [(y, x)], {(y, x)}
        while True:
            opts = []
            for dy, dx in ((1, 0), (-1, 0), (0, 1), (0, -1)):
                q = (y + dy, x + dx)
                if not (0 <= q[0] < h and 0 <= q[1] < w) or q in cells:
                    continue
                if sum(1 for ey, ex in ((1, 0), (-1, 0), (0, 1), (0, -1)) if (q[0] + ey, q[1] + ex) in cells) != 1:
                    continue
                # prefer hugging: score by number of out-of-board / already-blocked neighbours (longer worms)
                opts.append(q)
            if not opts:
                break
            y, x = rng.choice(opts)
            path.append((y, x))
            cells.add((y, x))
        if len(path) > len(best):
            best = path
    return best


def components_of(h, w, cells):
    """connected components (lists of cells) of the given cell set under orthogonal adjacency"""
    cells = set(cells)
    out = []
    while cells:
        c = cells.pop()
        comp, st = [c], [c]
        while st:
            y, x = st.pop()
            for dy, dx in ((1, 0), (-1, 0), (0, 1), (0, -1)):
                q = (y + dy, x + dx)
                if q in cells:
                    cells.discard(q)
                    comp.append(q)
                    st.append(q)
        out.append(comp)
    return out


def with_loops(rng, n, edges, k=None):
    """the same graph plus self-loops add_edge(v, v) (legal for Graph; irrelevant for connectivity, decisive for adjacency)"""
    k = k if k is not None else rng.randint(1, 2)
    e2 = list(edges) + [(v, v) for v in (rng.randrange(n) for _ in range(k))]
    rng.shuffle(e2)
    return e2


def line_graph_object(rng, nmax=5):
    """A Graph OBJECT obtained from Graph.line_graph() of a random small graph H (vertex k of the result = edge k of H), together
    with its edge list computed here from the definition (two edges of H adjacent iff they share an endpoint; one edge per shared
    pair), in the order the object itself reports its edges.  Returns (graph_object, n, edges) or None if they disagree as sets
    (then the caller counts it: the line graph itself is wrong)."""
    from cspuz.graph import Graph

    hn = rng.randint(2, nmax)
    hedges = []
    for _ in range(rng.randint(1, 6)):
        u, v = rng.sample(range(hn), 2)
        hedges.append((u, v))
    H = Graph(hn)
    for u, v in hedges:
        H.add_edge(u, v)
    g = H.line_graph()
    n = len(hedges)
    want = set()
    for a in range(n):
        for b in range(a + 1, n):
            if set(hedges[a]) & set(hedges[b]):
                want.add(frozenset((a, b)))
    got = [tuple(g[k]) for k in range(len(g))]
    if g.num_vertices != n or {frozenset(e) for e in got} != want or any(len(set(e)) != 2 for e in got):
        return None
    # multiplicities as reported (parallel line-graph edges for parallel H edges are the object's business; connectivity ignores them)
    return g, n, got


def scramble(rng, edges):
    """Same graph, edges in random order and random orientation (add_edge(larger, smaller) is legal)."""
    e2 = [(v, u) if rng.random() < 0.5 else (u, v) for u, v in edges]
    rng.shuffle(e2)
    return e2


FORMS = ["var", "neg", "expr", "const", "mixed"]


def apply_form(s, form, pattern, rng=None):
    """-> (is_active list, pins) realising `pattern` in the given operand form."""
    act, pins = [], []
    side_t = None
    shared = {}
    for k, p in enumerate(pattern):
        f = form
        if form == "mixed":
            f = rng.choice(["var", "neg", "expr", "const"]) if rng else ["var", "neg", "expr", "const"][k % 4]
        elif form == "mixed-nc":
            f = rng.choice(["var", "neg", "expr"]) if rng else ["var", "neg", "expr"][k % 3]
        if f == "const":
            act.append(bool(p))
        elif f == "var":
            v = s.bool_var()
            act.append(v)
            pins.append(v if p else ~v)
        elif f == "neg":
            v = s.bool_var()
            act.append(~v)
            pins.append(~v if p else v)
        else:
            # a compound flag: a node of every boolean operator occurs as the flag's top node (side_t is pinned true)
            if side_t is None:
                side_t = s.bool_var()
                pins.append(side_t)
            v = s.bool_var()
            t = side_t
            shape = rng.randrange(11) if rng else k % 11
            if shape >= 9 and not shared:
                # ONE guard object used by several flags of the same call (`guard = a & b; flags = [guard & v0, guard & v1, ...]`)
                t2 = s.bool_var()
                pins.append(t2)
                shared["and"] = t & t2
                shared["or"] = ~t | ~t2
            e = [lambda: (v & t) | (v & ~t), lambda: v & t, lambda: t & v, lambda: v | ~t, lambda: ~(~v), lambda: v == t, lambda: v ^ ~t,
                 lambda: t.then(v), lambda: ~(t ^ v), lambda: shared["and"] & v, lambda: shared["or"] | v][shape]()
            act.append(e)
            pins.append(v if p else ~v)
    return act, pins


def has_native(s):
    from cspuz.expr import Expr, Op

    def walk(e):
        return isinstance(e, Expr) and (e.op in (Op.GRAPH_ACTIVE_VERTICES_CONNECTED, Op.GRAPH_DIVISION) or any(walk(c) for c in e.operands))
    return any(walk(c) for c in s.constraints)


def backend_for(ctx, s, backend):
    """The stand-in is only needed (and only efficient) for programs that contain a native graph operator: a program without one is
    decided through z3 whatever was requested, so that a constraint function that quietly posts the other encoding is still judged
    against the definition instead of timing out in the stand-in."""
    if backend is not None and not has_native(s):
        ctx.count("graph.primitive_requested_but_no_native_operator_posted")
        return None
    return backend


def solve_sat(ctx, s, backend=None):
    """find_answer under M-SOLVE; returns True/False or None if the assistant fired / stand-in overflowed."""
    st = msolve.state()
    f0 = st.fired if st else 0
    backend = backend_for(ctx, s, backend)
    try:
        res = s.find_answer(backend=backend)
    except OverflowError:
        ctx.inconc("stand-in overflow", ctx.current_case)
        return None
    except Exception as e:
        tag = (ctx.current_case or {}).get("tag", "graph")
        ctx.violation(f"{tag}:solve-raises:{type(e).__name__}", f"solving the posted program raised {e!r}", ctx.current_case)
        return None
    if st and st.fired != f0:
        return None
    return res


def pointwise(ctx, tag, n, post, oracle, patterns, backend=None, forms=("var",), desc=None, rng=None):
    """post(s, act) posts the constraint for activity list act; oracle(pattern) -> bool."""
    both = [False, False]
    for pattern in patterns:
        for form in forms:
            s = cspuz.Solver()
            act, pins = apply_form(s, form, pattern, rng)
            ctx.current_case = {"tag": tag, "desc": desc, "pattern": [int(x) for x in pattern], "form": form}
            try:
                post(s, act)
            except Exception as e:
                ctx.violation(f"{tag}:post-raises:{type(e).__name__}", f"posting the constraint raised {e!r}", ctx.current_case)
                continue
            # the pattern is imposed the ways callers write it: a list, or a generator expression handed to ensure()
            if rng is not None and rng.random() < 0.3:
                s.ensure(q for q in pins)
            else:
                s.ensure(pins)
            res = solve_sat(ctx, s, backend)
            want = oracle(pattern)
            both[1 if want else 0] = True
            ctx.count(f"{tag}.pointwise")
            ctx.count(f"{tag}.form.{form}")
            ctx.count(f"{tag}.oracle." + ("valid" if want else "invalid"))
            ctx.case([tag, desc, list(map(int, pattern)), form], nontrivial=True)
            if res is None:
                continue
            if res and not want:
                ctx.violation(f"{tag}:accepts-invalid", f"{tag}: satisfiable for a pattern the definition rejects", ctx.current_case)
            elif not res and want:
                ctx.violation(f"{tag}:rejects-valid", f"{tag}: unsatisfiable for a pattern the definition admits", ctx.current_case)
    return both


def accepted_set(ctx, tag, nvars, post, oracle_set, backend=None, desc=None, cap=20000, kind="bool", dom=None, mkvars=None,
                 on_model=None):
    """post(s, vars) posts the constraint on free caller variables; oracle_set: set of tuples.
    mkvars(s) -> list of caller variables (default: fresh ones); on_model(pattern) -> optional extra check, returns
    None or a (mechanism, text) pair."""
    s = cspuz.Solver()
    if mkvars is not None:
        vs = mkvars(s)
    elif kind == "bool":
        vs = [s.bool_var() for _ in range(nvars)]
    else:
        vs = [s.int_var(dom[0], dom[1]) for _ in range(nvars)]
    ctx.current_case = {"tag": tag, "desc": desc, "mode": "accepted-set"}
    try:
        post(s, vs)
    except Exception as e:
        ctx.violation(f"{tag}:post-raises:{type(e).__name__}", f"posting the constraint raised {e!r}", ctx.current_case)
        return
    got = set()
    while True:
        res = solve_sat(ctx, s, backend)
        if res is None:
            return
        ctx.count(f"{tag}.accepted_set_solves")
        if not res:
            break
        pat = tuple((1 if v.sol else 0) if kind == "bool" else v.sol for v in vs)
        if pat in got:
            ctx.violation(f"{tag}:blocked-model-returned", "find_answer returned an assignment excluded by a posted clause", ctx.current_case)
            return
        got.add(pat)
        if pat not in oracle_set:
            ctx.current_case["pattern"] = list(pat)
            ctx.violation(f"{tag}:accepts-invalid", f"{tag}: a pattern the definition rejects has a completion", ctx.current_case)
            return
        if on_model is not None:
            bad = on_model(pat)
            if bad:
                ctx.current_case["pattern"] = list(pat)
                ctx.violation(bad[0], bad[1], ctx.current_case)
                return
        if len(got) > cap:
            ctx.inconc("accepted-set cap reached", ctx.current_case)
            return
        s.ensure(cspuz.fold_or([(v != bool(x)) if kind == "bool" else (v != x) for v, x in zip(vs, pat)]))
    ctx.case([tag, desc, "accepted-set"], nontrivial=bool(oracle_set) and len(oracle_set) < (2 ** nvars if kind == "bool" else 10 ** 9),
             n=len(got) + 1)
    ctx.count(f"{tag}.accepted_patterns", len(got))
    missing = oracle_set - got
    if missing:
        ctx.current_case["pattern"] = list(sorted(missing)[0])
        ctx.violation(f"{tag}:rejects-valid", f"{tag}: {len(missing)} pattern(s) the definition admits have no completion", ctx.current_case)


def all_patterns(n):
    return itertools.product((0, 1), repeat=n)


def grid_shapes(max_cells, max_side=None):
    out = []
    for h in range(1, max_cells + 1):
        for w in range(1, max_cells + 1):
            if h * w <= max_cells and (max_side is None or max(h, w) <= max_side):
                out.append((h, w))
    return out
