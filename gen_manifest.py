#!/usr/bin/env python3
"""Writes MANIFEST.json from the per-property table below (kept in one place so it stays valid)."""
import json

CHECKS = {}


def chk(pid, technique, text, note, ref):
    CHECKS[pid] = dict(
        property_id=pid,
        quick_cmd=f"./check {pid} --tier quick",
        thorough_cmd=f"./check {pid} --tier thorough",
        evidence_file=f"evidence/{pid}.json",
        replay_cmd_template=f"./check {pid} --replay {{path}}",
        engine="vf",
        level_claimed=dict(category="exploration", text=text, design_ref=ref),
        level_note=note,
        technique=technique,
    )


chk("C01", "runtime monitor (postcondition) on Solver.find_answer; oracle = reference evaluator + brute-force model enumeration + cvc5",
    "Every find_answer call made by generated programs / incremental sessions / graph encodings is judged at run time: the model left in .sol is "
    "re-evaluated by an independent evaluator on every call, and satisfiability is decided independently (all assignments, or cvc5 for wide domains). "
    "Held on the executions observed, not a proof.",
    "ref_eval semantics; cvc5/system z3 binaries for wide domains; bounded program size (depth<=5, <=7 variables)", "DESIGN.md §3 C01")
chk("C02", "runtime monitor (postcondition) on Solver.solve; exact fact table from all models; adversarial model-chooser stand-in drives the refinement loop",
    "Every solve call is compared with the table of forced values computed from ALL models; the refinement loop is driven through z3 and through a "
    "protocol stand-in whose model choice is hostile (stubborn/scatter/first/last/random), and through native-deduction replies.",
    "ref_brute on programs with domain product <= 8192; stand-in implements the reply formats of CspuzSugarInterface.java", "DESIGN.md §3 C02")

chk("C03", "runtime monitor at the client boundary of the text-protocol backends (M-WIRE) + M-SOLVE end to end; far end = protocol stand-in",
    "Every protocol exchange of the five backend classes is checked at run time: text well-formed, declarations equal the Solver's variables, "
    "each constraint line denotes the posted constraint (all assignments of its variables), key line exact, reply reflected into sol with the right types; "
    "driven through Solver and directly with sparse ids, in-process, through fake extension modules and through the real subprocess path.",
    "stand-in for absent Sugar/csugar/cspuz_core (reply formats from CspuzSugarInterface.java); semantics of the two native operators assumed from their names",
    "DESIGN.md §3 C03")

MANIFEST = dict(
    version=1,
    setup_cmd="./setup.sh",
    hooks=dict(
        guard="CSPUZ_VERIF",
        enable="no source hooks: monitors are attached from the harness (vf.install / vf.monitors) when CSPUZ_VERIF=1; ./check sets it and puts "
               "/repo's working tree first on PYTHONPATH",
        baseline_off_cmd="./baseline_off.sh",
        source_commits=[],
        add_only=True,
    ),
    engines=[dict(name="vf", path="vf/", serves_properties=sorted(CHECKS), kind_free_text="Python runtime-monitoring harness: monitors wrapped "
                  "around the real cspuz functions, reference oracles, sharded workloads")],
    checks=[CHECKS[k] for k in sorted(CHECKS)],
    notes="Technique family: runtime monitoring. See DESIGN.md. known_findings.json lists recorded and fixed defects.",
    not_applicable=[],
)
ALL = [f"C{i:02d}" for i in range(1, 21)]
for p in ALL:
    if p not in CHECKS:
        MANIFEST["not_applicable"].append(dict(property_id=p, reason="check not built yet in this round (planned, see DESIGN.md §9); not claimed"))
json.dump(MANIFEST, open("MANIFEST.json", "w"), indent=1)
print("wrote MANIFEST.json with", len(CHECKS), "checks")
