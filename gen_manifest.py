#!/usr/bin/env python3
"""Writes MANIFEST.json from the per-property table below (kept in one place so it stays valid)."""
import json

CHECKS = {}


def chk(pid, technique, text, note, ref):
    CHECKS[pid] = dict(
        property_id=pid,
        quick_cmd=f"./check {pid} --tier quick",
        thorough_cmd=f"./check {pid} --tier thorough",
        evidence_file=f"evidence/{pid}.json",
        replay_cmd_template=f"./check {pid} --replay {{path}}",
        engine="vf",
        level_claimed=dict(category="exploration", text=text, design_ref=ref),
        level_note=note,
        technique=technique,
    )


chk("C01", "runtime monitor (postcondition) on Solver.find_answer; oracle = reference evaluator + brute-force model enumeration + cvc5",
    "Every find_answer call made by generated programs / incremental sessions / graph encodings is judged at run time: the model left in .sol is "
    "re-evaluated by an independent evaluator on every call, and satisfiability is decided independently (all assignments, or cvc5 for wide domains). "
    "Histories: sessions whose variable count crosses 10/100 between solves, shared sub-term objects, planted instances with config.solver_timeout set. "
    "Held on the executions observed, not a proof.",
    "ref_eval semantics; cvc5/system z3 binaries for wide domains; bounded program size (depth<=5, <=7 variables)", "DESIGN.md §3 C01")
chk("C02", "runtime monitor (postcondition) on Solver.solve; exact fact table from all models; adversarial model-chooser stand-in drives the refinement loop",
    "Every solve call is compared with the table of forced values computed from ALL models; the refinement loop is driven through z3 and through a "
    "protocol stand-in whose model choice is hostile (stubborn/scatter/first/last/random), and through native-deduction replies; planted latin squares "
    "(every key decided by two cvc5 queries) with config.solver_timeout set.",
    "ref_brute on programs with domain product <= 8192; stand-in implements the reply formats of CspuzSugarInterface.java", "DESIGN.md §3 C02")

chk("C03", "runtime monitor at the client boundary of the text-protocol backends (M-WIRE) + M-SOLVE end to end; far end = protocol stand-in",
    "Every protocol exchange of the five backend classes is checked at run time: text well-formed, declarations equal the Solver's variables, "
    "each constraint line denotes the posted constraint (all assignments of its variables), key line exact, reply reflected into sol with the right types; "
    "driven through Solver and directly with sparse ids, in-process, through fake extension modules and through the real subprocess path.",
    "stand-in for absent Sugar/csugar/cspuz_core (reply formats from CspuzSugarInterface.java); semantics of the two native operators assumed from their names",
    "DESIGN.md §3 C03")

GRAPH_NOTE = ("z3 (the solver cspuz itself calls) decides the posted program: SAT answers are re-validated by M-SOLVE with the reference evaluator, "
              "UNSAT answers are trusted; primitive encodings are decided against a stand-in for the absent native solvers; bounds of the sweeps as in RULE")
chk("C04", "runtime execution of the real constraint on every pattern of small graphs/grids under M-SOLVE/M-WIRE; oracle = induced-subgraph connectivity / tree definition",
    "All labelled graphs <=4 vertices (thorough: 5) and all grids <=9 cells (thorough: 12, accepted-set to 16) x all activity patterns x acyclic x both "
    "encodings x operand forms are executed through the real function and compared with the definition; larger grids/graphs by sampled patterns "
    "(winding regions to 7x7, long paths); Graph objects used before further add_edge, grown edge by edge, made by line_graph(), with self-loops.",
    GRAPH_NOTE, "DESIGN.md §3 C04")
chk("C05", "runtime execution of division_connected on every labeling of small graphs/grids under M-SOLVE/M-WIRE; oracle = class-connectivity definition",
    "All labelled graphs <=4 vertices and grids <=6 cells x k<=3 x all labelings x allow_empty x roots x both encodings x label forms vs the definition; "
    "winding regions on boards to 7x7, long paths rooted at one end, self-loops, line_graph() objects, roots lists longer than num_regions.",
    GRAPH_NOTE, "DESIGN.md §3 C05")
chk("C06", "runtime execution of single_cycle/single_path with the passed-array as answer keys under solve(); oracle = degree + union-find definition and lattice geometry",
    "All multigraphs <=4 vertices (<=6 edges) and frames up to 2x2 x all edge subsets, frames to 3x3 by accepted-set enumeration against all simple cycles; "
    "the returned array must come back forced to the visited set; long cycles on frames to 7x7 and cycle graphs to 26 vertices with near misses; "
    "constant / compound edge flags, frames over caller-supplied arrays.", GRAPH_NOTE, "DESIGN.md §3 C06")
chk("C07", "runtime execution of variable-group division for every set partition / border pattern under M-SOLVE/M-WIRE; oracle = partition definition",
    "All labelled graphs <=4 vertices and grids <=6 cells x all set partitions x six group_size forms (driver A) and x border patterns, explicit and "
    "inner-frame forms, aux and native graph-division (driver B); winding blocks on boards to 6x6, line_graph() objects, frames over one or two "
    "caller-supplied arrays.", GRAPH_NOTE, "DESIGN.md §3 C07")
chk("C08", "reference evaluation of every clause posted by not_adjacent under all patterns; three-way comparison grid encoding / explicit-graph form / definition for not_segmenting",
    "not_adjacent: all graphs <=5 vertices, all grids <=12 cells, all patterns, no solver needed; not_segmenting: all grids <=9 cells pointwise in both "
    "encodings and <=12 (thorough 20) cells by accepted-set enumeration, incl. 1xN and Nx1; sampled deep diagonal chains on boards to 7x7 (thorough 9x9); "
    "self-loops and line_graph() objects.", GRAPH_NOTE, "DESIGN.md §3 C08")
chk("C09", "runtime execution of active_edges_acyclic on every edge subset of small multigraphs under M-SOLVE; oracle = union-find forest test",
    "All multigraphs <=4 vertices (mult<=2, <=7 edges) up to isomorphism pointwise, all labelled simple graphs on 4 (thorough 5) vertices by accepted-set, "
    "random multigraphs n<=9, long paths / deep spanning trees (n to 36), line_graph() objects.", GRAPH_NOTE, "DESIGN.md §3 C09")
chk("C10", "runtime execution of the crossable constraint with both returned arrays as answer keys under solve(); oracle = degree rule + segment union-find",
    "Frames up to 1x3 and 2x2 x all segment subsets x single_cycle, near-valid random trails on 2x3..3x3 (thorough 4x3), primitive route sampled.",
    GRAPH_NOTE, "DESIGN.md §3 C10")

chk("C12", "client-boundary judgement of every array operator form through Python syntax + runtime contracts (M-ARRAY) on _elementwise and the aggregate helpers; oracle = reference evaluation",
    "Every operator form x operand-kind combination x shape (1D 0..5, 2D 0..4 x 0..4) is invoked and judged: class/shape, pointwise denotation under "
    "all assignments of the operand variables, exception on shape/kind mismatch; helpers over random nestings incl. empty / constant-only forms.",
    "ref_eval semantics; '=='/'!=' kind mismatch and Python literals of the other kind are outside the statement and unjudged", "DESIGN.md §3 C12")
chk("C13", "runtime monitor (M-INDEX) on __getitem__/flatten/reshape replaying every call on the equivalent Python list of lists; small-scope exhaustive key sweep",
    "All keys of the box (sizes 0..5, start/stop -7..7|None, steps +-1,2,3,7|None, ints -7..7) on 1D arrays and both axes of 2D arrays, coordinate lists, "
    "huge bounds: identity/order/shape/IndexError must equal the list model.",
    "Python list indexing is the specification; step 0 and 'no row selected + column out of range' unjudged", "DESIGN.md §3 C13")
chk("C14", "runtime monitor (M-FRAME) on BoolGridFrame accessors, dual and the graph inference, compared with a lattice-geometry model",
    "All frames 0..4 x 0..4 (thorough 7) x all coordinates inside/outside in both call styles; variable identity per geometric segment.",
    "documented horizontal/vertical arrays define the segment of each variable", "DESIGN.md §3 C14")

chk("C15", "client-boundary round-trip oracle on the real serialize_problem/deserialize_problem over generated combinator terms and in-domain values + recording wrapper on every Combinator.serialize checking the local leaf law",
    "Random combinator terms (OneOf alternatives with disjoint leading characters) x limit-hitting values x boards 1..6 x 1..6 incl. 1xN/Nx1; rooms in "
    "all/random orders of rooms and cells; decode(encode(v)) == v up to the canonical ordering of rooms, exact consumption, and every leaf call reads back what it wrote.",
    "values are generated structurally inside each combinator's domain; DecInt followed by a digit is not generated", "DESIGN.md §3 C15")

chk("C16", "client-boundary oracle on every serialize_*/deserialize_*/..._url function of the puzzle modules: round trip, URL head, independent pzpr decoder, legacy-vs-combinator text",
    "Generated problems of each module's format on boards 1..12 x 1..12 (non-square both ways): decode(encode(p)) == p with dimensions, head name/W/H, "
    "body re-read by an independent decoder written from the pzpr conventions, legacy encoders vs combinator codecs identical.",
    "refs/pzpr.py is my reading of the pzpr encodings (Appendix B); not cross-checked against the real pzpr.js offline", "DESIGN.md §3 C16")
chk("C17", "contract on every deserializer under hostile workloads: grammar-aware URL mutation, random URL-alphabet and Unicode text, large boards, direct combinator calls; thorough adds atheris coverage-guided fuzzing",
    "Outcome must be None / ValueError / a problem with the URL's dimensions that re-encodes and whose canonical text decodes to itself; ~10^5 strings quick, "
    "10^7 + libFuzzer thorough; witness = the string.", "allowed outcomes exactly as stated by the property; env dimensions >= 1 for direct combinator calls", "DESIGN.md §3 C17")

chk("C18", "class invariant + purity checks hooked on SegmentationBuilder2D.initial()/copy_with_update() (M-SEG), observed over random walks through the builder's own candidates",
    "Every value produced in ~10^3 (thorough 5*10^4) walks over boards 1x1..8x8 and bound configurations is checked to be a partition into connected blocks "
    "inside the bounds; the updated-from value is compared with a deep snapshot and every value ever produced is re-verified at the end.",
    "bound configurations generated around a target partition (satisfiable); unmet-first runs judged for bounds only once inside them", "DESIGN.md §3 C18")
chk("C19", "recorded-history checker (M-GEN) around the real generate_problem: solver/uniqueness/pretest callbacks, neighbour generator and every srandom draw; scripted entropy source for the PRNG arithmetic",
    "Soundness of the returned problem, neighbour law (one builder, choice set, symmetry, adjacency), purity of all problems, reproducibility over repetitions "
    "with different global-random state and equal callbacks (incl. z3 vs stand-in backend), exact accept/reject mapping of randint/choice/shuffle/random.",
    "symmetric disallow_adjacent offset lists only; chi-square part has a 1e-9 false-alarm budget", "DESIGN.md §3 C19")

chk("C20", "one fresh interpreter per configuration observed through an audit hook, class-instantiation wrappers, stub extension modules and a fake sugar executable; oracle = decision table from the statement",
    "~1.4*10^3 (thorough 4*10^4) sampled configurations over environment variables x importable modules x config assignments x per-call overrides x graph "
    "function x acyclic: import probe order, config after import, backend class instantiated, external entry point invoked, native operators posted/emitted, ValueError for unknown names / malformed booleans.",
    "module presence/absence simulated by a meta-path blocker and stubs", "DESIGN.md §3 C20")

chk("C11", "client-boundary comparison of every bundled solve_<puzzle> with ground truth from exhaustive definition-level rule checkers (26 puzzles), under M-SOLVE",
    "~190 (thorough ~3000) random instances per puzzle on boards up to 9-12 cells incl. non-square and 1xN: is_sat must equal 'a rule-obeying grid exists' and every "
    "answer cell must be the value all rule-obeying grids agree on, or None; rule corners are handled by computing the truth under every reading.",
    "my reading of the published rules (DESIGN.md Appendix A); candidate spaces enumerated completely for each instance", "DESIGN.md §3 C11 + Appendix A")

MANIFEST = dict(
    version=1,
    setup_cmd="./setup.sh",
    hooks=dict(
        guard="CSPUZ_VERIF",
        enable="no source hooks: monitors are attached from the harness (vf.install / vf.monitors) when CSPUZ_VERIF=1; ./check sets it and puts "
               "/repo's working tree first on PYTHONPATH",
        baseline_off_cmd="./baseline_off.sh",
        source_commits=[],
        add_only=True,
    ),
    engines=[dict(name="vf", path="vf/", serves_properties=sorted(CHECKS), kind_free_text="Python runtime-monitoring harness: monitors wrapped "
                  "around the real cspuz functions, reference oracles, sharded workloads")],
    checks=[CHECKS[k] for k in sorted(CHECKS)],
    notes="Technique family: runtime monitoring. See DESIGN.md. known_findings.json lists recorded and fixed defects.",
    not_applicable=[],
)
ALL = [f"C{i:02d}" for i in range(1, 21)]
for p in ALL:
    if p not in CHECKS:
        MANIFEST["not_applicable"].append(dict(property_id=p, reason="check not built yet in this round (planned, see DESIGN.md §9); not claimed"))
json.dump(MANIFEST, open("MANIFEST.json", "w"), indent=1)
print("wrote MANIFEST.json with", len(CHECKS), "checks")
