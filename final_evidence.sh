#!/bin/bash
# final_evidence.sh : regenerate evidence/Cnn.json with one clean quick run per property on the current tree (seed 0)
cd "$(dirname "$0")"
rc=0
for p in C01 C02 C03 C04 C05 C06 C07 C08 C09 C10 C11 C12 C13 C14 C15 C16 C17 C18 C19 C20; do
  out=$(./check $p --tier quick 2>&1); r=$?
  echo "$p rc=$r $(echo "$out" | grep -E 'held on|VIOLATION|INCONCLUSIVE' | head -1)"
  [ $r -ne 0 ] && rc=1
done
exit $rc
